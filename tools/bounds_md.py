#!/usr/bin/env python3
"""prints a markdown appendix with the bounds each engine explored, from evidence directories given as arguments
(label=dir ...), e.g. tools/bounds_md.py quick=/verif/evidence thorough=/verif/evidence_thorough"""
import json, sys, os
for arg in sys.argv[1:]:
    label, d = arg.split('=')
    print("### %s tier\n" % label.capitalize())
    print("| property | engine | bound (as explored) | states | executions | exhaustive |")
    print("|---|---|---|---|---|---|")
    for i in range(1, 15):
        p = os.path.join(d, "C%02d.json" % i)
        if not os.path.exists(p):
            continue
        j = json.load(open(p))
        for name, e in j['coverage']['engines'].items():
            print("| C%02d | %s | %s | %d | %d | %s |" % (i, name, e['bound'].replace('|', '/'), e['states'], e['traces'], "yes" if e['exhaustive'] else "no (cap)"))
        print("| C%02d | *total* | wall %.0f s, %d outcome classes | %d | %d | %s |" % (i, j['wall_s'], j['coverage']['distinct_outcome_classes'], j['coverage']['states'], j['coverage']['traces_validated_against_impl'], "yes" if j['coverage']['exhaustive'] else "no"))
    print()
