#!/usr/bin/env python3
"""writes /verif/seeded/RESULTS.md from the meta.json files (and, if present, seeded/matrix.txt written by run_seeded.sh)"""
import glob, json, os
rows = []
for d in sorted(glob.glob('/verif/seeded/C*-*')):
    m = json.load(open(os.path.join(d, 'meta.json')))
    rows.append((os.path.basename(d), m))
matrix = {}
mp = '/verif/seeded/matrix.txt'
if os.path.exists(mp):
    for l in open(mp):
        if l.startswith('SEEDED '):
            p = l.split()
            matrix[p[1]] = l.split('detected_by:')[1].strip()
out = ["# Seeded property-breaking changes and what the checks report", "",
       "Every change below was written by an independent sub-agent (property text + private worktree only), compiles,",
       "passes the repository's 59 tests, and comes with a demonstration that fails with the change and passes without it;",
       "all of that was re-run here before the change was kept (`meta.json` has the commands and outcomes).",
       "`-1/-2` = first round, `-3/-4` = second round (asked to avoid the first round's ideas), `-5/-6` = third, `-7/-8` = fourth, `-9/-10` = fifth, `-11/-12` = sixth, `-13/-14` = seventh round",
       "(each round was given the ideas of all earlier rounds as a do-not-reuse list).",
       "Column *quick checks* = checks whose quick tier exits 1 with a VIOLATION line when the patch is applied to /repo",
       "(final state of the harness; `OWN_ONLY=1 tools/run_seeded.sh` reproduces the column: it runs the check of the property the change was", "written against; the two C04 entries were run by hand).", "",
       "| change | breaks | needs, in order to manifest | quick checks that report it | history |", "|---|---|---|---|---|"]
missed_first = 0
for name, m in rows:
    det = matrix.get(name, " ".join(m['detected_by_quick_checks']))
    h = m['history']
    if 'missed' in h or 'detected by the E2s streams added' in h or 'first version: only' in h or 'outside the first' in h or 'first version: C02 and C04 but not' in h or 'first version: reported' in h:
        missed_first += 1
    out.append("| %s | %s | %s | %s | %s |" % (name, m['property'], m['needs_to_manifest'].replace('|', '/'), det, h.replace('|', '/')))
out += ["", "%d changes; %d of them were missed (or only reported indirectly) by the version of the checks that existed when they arrived and led to a new engine or a sharper oracle; with the current harness every one is reported by the check of the property it was written against, with two exceptions explained in their meta.json: C08-6 (its failing vectors lie outside the range C08 quantifies over; C04 reports it) and C05-4 (the repair of defect 14 hardened the very site it relied on, so it no longer breaks C05; C04 reports it as a silent change of the model)." % (len(rows), missed_first)]
open('/verif/seeded/RESULTS.md', 'w').write("\n".join(out) + "\n")
print(len(rows), "rows;", missed_first, "initially missed")
