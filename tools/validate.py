#!/opt/veriftools/pyvenv/bin/python
"""validates MANIFEST.json and every evidence file against the schemas"""
import json, sys, glob, jsonschema
ok = True
m = json.load(open('/verif/MANIFEST.json'))
try:
    jsonschema.validate(m, json.load(open('/root/.vp/MANIFEST.schema.json')))
    print('MANIFEST ok:', len(m['checks']), 'checks,', len(m.get('not_applicable', [])), 'not applicable')
except jsonschema.ValidationError as e:
    ok = False; print('MANIFEST INVALID', e.message)
es = json.load(open('/root/.vp/EVIDENCE.schema.json'))
for f in sorted(glob.glob('/verif/evidence/*.json')):
    try:
        jsonschema.validate(json.load(open(f)), es); print('ok', f)
    except jsonschema.ValidationError as e:
        ok = False; print('INVALID', f, e.message)
sys.exit(0 if ok else 1)
