#!/usr/bin/env python3
"""store_seeded.py <ID> <k> '<needs>' '<detected_by>' '<history>' : copies a confirmed seeded change from
/tmp/seed/out_<ID>/<k> into /verif/seeded/<ID>-<k>/ with a meta.json"""
import json, os, shutil, sys, re
ID, k, needs, detected, history = sys.argv[1:6]
srcroot = sys.argv[6] if len(sys.argv) > 6 else "out"
dstk = sys.argv[7] if len(sys.argv) > 7 else k
src = "/tmp/seed/%s_%s/%s" % (srcroot, ID, k)
dst = "/verif/seeded/%s-%s" % (ID, dstk)
os.makedirs(dst, exist_ok=True)
for f in ("patch.diff", "demo_test.rs", "notes.md"):
    if os.path.exists(os.path.join(src, f)):
        shutil.copy(os.path.join(src, f), os.path.join(dst, f))
log = open(os.path.join(src, "confirm.log")).read() if os.path.exists(os.path.join(src, "confirm.log")) else ""
marks = re.findall(r"^(DEMO_\w+ rc=\d+|SUITE_WITH_CHANGE rc=\d+|test result: .*)$", log, re.M)
prop = json.load(open("/tmp/seed/%s_%s/property.json" % (srcroot, ID)))
feat = "--features verif " if "verif_hooks" in open(os.path.join(src, "demo_test.rs")).read() else ""
meta = {
    "property": ID,
    "property_title": prop["title"],
    "origin": "written by an independent sub-agent that saw only the property text and a private worktree of /repo",
    "needs_to_manifest": needs,
    "confirmed_here": {
        "worktree": "scratch git worktree of /repo under /tmp (removed afterwards)",
        "commands": [
            "cp demo_test.rs tests/ && cargo test --offline %s--test demo_test   (without the change: passes)" % feat,
            "git apply patch.diff && cargo test --offline %s--test demo_test     (with the change: fails)" % feat,
            "cargo test --workspace --no-fail-fast --offline                      (with the change: all 59 pass)",
        ],
        "outcomes": marks,
    },
    "detected_by_quick_checks": detected.split(),
    "history": history,
}
json.dump(meta, open(os.path.join(dst, "meta.json"), "w"), indent=1)
print("stored", dst, len(marks), "marks")
