#!/bin/sh
# (VERIF_DIR / REPO_DIR select a scratch copy of the harness and a scratch worktree instead of /verif and /repo)
# Runs the quick checks against every seeded change under /verif/seeded and reports which checks
# raise a VIOLATION. Usage: tools/run_seeded.sh [name ...] ; env CHECKS="C01 C02" restricts the checks,
# TIER=thorough selects the tier; OWN_ONLY=1 runs only the check of the property the change was written against. /repo is restored afterwards (git checkout -- .).
V=${VERIF_DIR:-/verif}; R=${REPO_DIR:-/repo}
cd $V || exit 2
export VERIF_EVIDENCE_DIR=$V/scratch/seeded_evidence; mkdir -p $VERIF_EVIDENCE_DIR
if [ -n "$(git -C $R status --porcelain --untracked-files=no)" ]; then echo "/repo has uncommitted changes; refusing"; exit 2; fi
trap 'git -C $R checkout -- . ; git -C $R clean -fdq -- src tests' EXIT INT TERM
NAMES="$*"
: > seeded/matrix.new
[ -z "$NAMES" ] && NAMES=$(ls seeded | grep -v '\.md$')
TIER=${TIER:-quick}
for n in $NAMES; do
  d=seeded/$n
  [ -f "$d/patch.diff" ] || continue
  prop=$(python3 -c "import json;print(json.load(open('$d/meta.json'))['property'])" 2>/dev/null)
  # default: the check of the property the change was written against plus the checks recorded in meta.json;
  # CHECKS=all runs all fourteen
  own=$(python3 -c "import json;m=json.load(open('$d/meta.json'));print(' '.join(sorted(set([m['property']]+m['detected_by_quick_checks']))))" 2>/dev/null)
  cs=${CHECKS:-$own}
  [ -n "$OWN_ONLY" ] && cs=$prop
  [ "$cs" = "all" ] && cs="C01 C02 C03 C04 C05 C06 C07 C08 C09 C10 C11 C12 C13 C14"
  git -C $R checkout -- . && git -C $R apply "$PWD/$d/patch.diff" || { echo "$n: patch does not apply"; continue; }
  hits=""
  for c in $cs; do
    out=$(./check $c $TIER 2>/dev/null); rc=$?
    if [ $rc -eq 1 ]; then hits="$hits $c"; elif [ $rc -ne 0 ]; then hits="$hits $c(rc=$rc)"; fi
  done
  git -C $R checkout -- .
  echo "SEEDED $n breaks=$prop detected_by:${hits:- NONE}" | tee -a seeded/matrix.new
done

[ -z "$*" ] && mv seeded/matrix.new seeded/matrix.txt || true
