#!/bin/sh
# Regenerates /verif/reference from a git revision of /repo (default HEAD).
# Run BY HAND when a fix: commit is recorded; never at check time.
set -e
REV=${1:-HEAD}
DST=/verif/reference
rm -rf "$DST/src"
mkdir -p "$DST"
git -C /repo archive "$REV" src | tar -x -C "$DST"
rm -f "$DST/src/main.rs"
# the two C wrappers would clash with the current build's symbols in one binary
sed -i 's/^#\[no_mangle\]$/\/\/ #[no_mangle] (removed in the reference copy: symbol clash)/' "$DST/src/lib.rs"
cat > "$DST/Cargo.toml" <<'EOT'
[package]
name = "preflate-rs-ref"
version = "0.6.0"
edition = "2021"
description = "frozen reference copy of preflate-rs (pinned release plus recorded fix: commits)"

[features]
default = ["verif"]
verif = []

[dependencies]
byteorder = "1.4"
cabac = "0.6.0"
default-boxed = "0.2"
zstd = "0.13.0"
crc32fast = "1.3"

[lib]
name = "preflate_rs_ref"
crate-type = ["lib"]
EOT
git -C /repo rev-parse "$REV" > "$DST/REVISION"
echo "reference regenerated from $(cat $DST/REVISION)"
