//! Runtime shared by all checks: panic capture, the `Subject` seam, sharded exploration,
//! statistics, progress slots (survive a crash of the process) and the hang watchdog.

use std::cell::RefCell;
use std::collections::BTreeMap;
use std::io::{Read, Write};
use std::panic::{catch_unwind, AssertUnwindSafe};
use std::sync::atomic::{AtomicBool, AtomicU64, Ordering};
use std::sync::Mutex;
use std::time::Instant;

// ---------------------------------------------------------------------------------------------
// panic capture

#[derive(Clone, Debug, PartialEq, Eq)]
pub struct PanicInfo {
    pub loc: String,
    pub msg: String,
}

thread_local! {
    static LAST_PANIC: RefCell<Option<PanicInfo>> = const { RefCell::new(None) };
}

pub fn install_panic_hook() {
    std::panic::set_hook(Box::new(|info| {
        let loc = info
            .location()
            .map(|l| {
                let f = l.file();
                // keep the path relative to the crate so that it is stable across checkouts
                let f = f.rsplit_once("/src/").map(|(_, b)| b).unwrap_or(f);
                format!("{}:{}", f, l.line())
            })
            .unwrap_or_else(|| "?".into());
        let msg = if let Some(s) = info.payload().downcast_ref::<&str>() {
            s.to_string()
        } else if let Some(s) = info.payload().downcast_ref::<String>() {
            s.clone()
        } else {
            "?".into()
        };
        let mut msg = msg;
        msg.truncate(200);
        LAST_PANIC.with(|p| *p.borrow_mut() = Some(PanicInfo { loc, msg }));
    }));
}

/// runs `f`, turning a panic into `Err(PanicInfo)`
pub fn caught<T>(f: impl FnOnce() -> T) -> Result<T, PanicInfo> {
    match catch_unwind(AssertUnwindSafe(f)) {
        Ok(v) => Ok(v),
        Err(_) => Err(LAST_PANIC
            .with(|p| p.borrow_mut().take())
            .unwrap_or(PanicInfo {
                loc: "?".into(),
                msg: "?".into(),
            })),
    }
}

// ---------------------------------------------------------------------------------------------
// the subject seam

#[derive(Clone, Debug, PartialEq, Eq)]
pub struct SErr {
    pub code: i32,
    pub msg: String,
}
pub type R<T> = Result<T, SErr>;

#[derive(Clone, Debug, PartialEq, Eq)]
pub struct Split {
    pub plain: Vec<u8>,
    pub corr: Vec<u8>,
    pub size: usize,
}

#[derive(Copy, Clone, Debug, PartialEq, Eq, PartialOrd, Ord, Hash)]
pub enum Op {
    Value(u8, u16),
    Mis(u8, bool),
    Corr(u8, u32),
}

pub trait Subject: Sync {
    fn name(&self) -> &'static str;
    fn decompress(&self, d: &[u8], verify: bool) -> R<Split>;
    fn recompress(&self, plain: &[u8], corr: &[u8]) -> R<Vec<u8>>;
    fn expand(&self, f: &[u8]) -> R<Vec<u8>>;
    /// expand_zlib_chunks with a log level > 0 (the library then prints to stdout)
    fn expand_log(&self, f: &[u8], level: u32) -> R<Vec<u8>>;
    fn recreate(&self, src: &mut dyn Read, dst: &mut dyn Write) -> R<()>;
    fn compress_zstd(&self, f: &[u8]) -> R<Vec<u8>>;
    fn decompress_zstd(&self, f: &[u8], cap: usize) -> R<Vec<u8>>;
    fn parse_and_rewrite(&self, d: &[u8]) -> R<(Vec<u8>, usize, Vec<u8>)>;
    fn estimate(&self, d: &[u8]) -> R<Vec<u32>>;
    fn roundtrip_with_params(&self, d: &[u8], v: &[u32]) -> R<(Vec<u8>, usize, usize, Vec<u32>)>;
    /// (plaintext, corrections, consumed) coded under the given parameter vector
    fn corrections_with_params(&self, d: &[u8], v: &[u32]) -> R<(Vec<u8>, Vec<u8>, usize)>;
    fn cabac_roundtrip(&self, ops: &[Op]) -> (usize, Vec<Op>);
    fn format_versions(&self) -> (u8, u16);
    /// # Safety: raw C ABI call
    unsafe fn c_compress(&self, i: *const u8, il: u64, o: *mut u8, ol: u64, r: *mut u64) -> i32;
    /// # Safety: raw C ABI call
    unsafe fn c_decompress(&self, i: *const u8, il: u64, o: *mut u8, ol: u64, r: *mut u64)
        -> i32;
    fn set_sched_hook(&self, f: Option<fn(u32)>);
}

/// convenience: recreate from a byte slice into a Vec
pub fn recreate_vec(s: &dyn Subject, container: &[u8]) -> R<Vec<u8>> {
    let mut src = std::io::Cursor::new(container);
    let mut dst: Vec<u8> = Vec::new();
    s.recreate(&mut src, &mut dst)?;
    Ok(dst)
}

// ---------------------------------------------------------------------------------------------
// selection of cases (sharding / single-case replay)

#[derive(Clone, Debug)]
pub struct Sel {
    pub shard: u64,
    pub nshards: u64,
    /// when set, only this engine runs (replay)
    pub only_engine: Option<String>,
    /// (engine, index) pairs never executed (cases that crashed the process in an earlier attempt)
    pub skip: Vec<(String, u64)>,
}

impl Sel {
    #[inline]
    pub fn mine(&self, index: u64) -> bool {
        index % self.nshards == self.shard
    }
}

#[derive(Copy, Clone, Debug, PartialEq, Eq)]
pub enum Tier {
    Quick,
    Thorough,
}

// ---------------------------------------------------------------------------------------------
// violations and statistics

#[derive(Clone, Debug)]
pub struct Viol {
    pub property: String,
    pub engine: String,
    pub index: u64,
    /// short stable class, e.g. "rebuild-differs", "panic"
    pub class: String,
    pub panic_site: Option<String>,
    pub detail: String,
    pub input_hex: String,
}

pub fn hex(b: &[u8]) -> String {
    let mut s = String::with_capacity(b.len() * 2);
    for x in b {
        s.push_str(&format!("{:02x}", x));
    }
    s
}

pub fn hex_short(b: &[u8]) -> String {
    if b.len() <= 160 {
        hex(b)
    } else {
        format!("{}..({} bytes)", hex(&b[..160]), b.len())
    }
}

pub fn unhex(s: &str) -> Vec<u8> {
    (0..s.len() / 2)
        .map(|i| u8::from_str_radix(&s[2 * i..2 * i + 2], 16).unwrap())
        .collect()
}

#[derive(Default, Clone, Debug)]
pub struct EngineStats {
    /// nodes of the choice tree / model states generated
    pub states: u64,
    /// edges of the choice tree / model transitions
    pub transitions: u64,
    /// complete cases executed against the implementation
    pub traces: u64,
    /// distinct non-trivial cases by the engine's stated rule
    pub nontrivial: u64,
    pub outcomes: BTreeMap<String, u64>,
    pub samples: Vec<String>,
    pub notes: Vec<String>,
    pub bound: String,
    pub exhaustive: bool,
}

#[derive(Default)]
pub struct Local {
    pub engines: BTreeMap<String, EngineStats>,
    pub viols: Vec<Viol>,
    pub known_panics: u64,
    /// free-form additive counters (aggregated across workers)
    pub sums: BTreeMap<String, u64>,
}

pub const MAX_VIOLS_PER_THREAD: usize = 64;

impl Local {
    pub fn eng(&mut self, e: &str) -> &mut EngineStats {
        if !self.engines.contains_key(e) {
            self.engines.insert(e.to_string(), EngineStats::default());
        }
        self.engines.get_mut(e).unwrap()
    }
    pub fn outcome(&mut self, e: &str, class: &str) {
        let s = self.eng(e);
        s.traces += 1;
        match s.outcomes.get_mut(class) {
            Some(c) => *c += 1,
            None => {
                s.outcomes.insert(class.to_string(), 1);
            }
        }
    }
    pub fn sample(&mut self, e: &str, text: impl FnOnce() -> String) {
        let s = self.eng(e);
        if s.samples.len() < 3 {
            s.samples.push(text());
        }
    }
    pub fn violation(&mut self, v: Viol) {
        let cls = format!("VIOLATION:{}", v.class);
        self.outcome(&v.engine.clone(), &cls);
        // keep one per (class, panic site) beyond the first few so that the list stays readable
        let same = self
            .viols
            .iter()
            .filter(|o| o.class == v.class && o.panic_site == v.panic_site && o.engine == v.engine)
            .count();
        if same < 4 && self.viols.len() < MAX_VIOLS_PER_THREAD {
            self.viols.push(v);
        }
    }
    pub fn merge(&mut self, other: Local) {
        for (k, o) in other.engines {
            let s = self.eng(&k);
            s.states += o.states;
            s.transitions += o.transitions;
            s.traces += o.traces;
            s.nontrivial += o.nontrivial;
            for (c, n) in o.outcomes {
                *s.outcomes.entry(c).or_insert(0) += n;
            }
            for x in o.samples {
                if s.samples.len() < 3 {
                    s.samples.push(x);
                }
            }
            for x in o.notes {
                if !s.notes.contains(&x) {
                    s.notes.push(x);
                }
            }
            if !o.bound.is_empty() {
                s.bound = o.bound;
            }
            s.exhaustive |= o.exhaustive;
        }
        self.viols.extend(other.viols);
        for (k, v) in other.sums {
            *self.sums.entry(k).or_insert(0) += v;
        }
        self.known_panics += other.known_panics;
    }
}

// ---------------------------------------------------------------------------------------------
// progress slots + watchdog

pub const MAX_THREADS: usize = 64;
const SLOT_BYTES: usize = 64;

pub struct Progress {
    base: *mut u8,
    /// in-process copy used by the watchdog
    started: Vec<AtomicU64>, // millis since `t0` when the current case began; 0 = idle
    limit_ms: Vec<AtomicU64>,
    t0: Instant,
    pub hang: Mutex<Option<(usize, String, u64)>>,
    pub stop: AtomicBool,
}

unsafe impl Sync for Progress {}
unsafe impl Send for Progress {}

impl Progress {
    /// `path`: file that receives the slots (engine name, index) of every worker thread
    pub fn new(path: Option<&str>) -> Progress {
        let len = MAX_THREADS * SLOT_BYTES;
        let base = unsafe {
            match path {
                Some(p) => {
                    let c = std::ffi::CString::new(p).unwrap();
                    let fd = libc::open(c.as_ptr(), libc::O_RDWR | libc::O_CREAT | libc::O_TRUNC, 0o644);
                    assert!(fd >= 0, "cannot open progress file");
                    assert_eq!(libc::ftruncate(fd, len as i64), 0);
                    let m = libc::mmap(
                        std::ptr::null_mut(),
                        len,
                        libc::PROT_READ | libc::PROT_WRITE,
                        libc::MAP_SHARED,
                        fd,
                        0,
                    );
                    assert!(m != libc::MAP_FAILED);
                    libc::close(fd);
                    m as *mut u8
                }
                None => {
                    let v = vec![0u8; len].into_boxed_slice();
                    Box::leak(v).as_mut_ptr()
                }
            }
        };
        Progress {
            base,
            started: (0..MAX_THREADS).map(|_| AtomicU64::new(0)).collect(),
            limit_ms: (0..MAX_THREADS).map(|_| AtomicU64::new(0)).collect(),
            t0: Instant::now(),
            hang: Mutex::new(None),
            stop: AtomicBool::new(false),
        }
    }

    /// marks the start of a case in thread slot `t`
    #[inline]
    pub fn begin(&self, t: usize, engine: &str, index: u64, limit_ms: u64) {
        unsafe {
            let p = self.base.add(t * SLOT_BYTES);
            let e = engine.as_bytes();
            let n = e.len().min(SLOT_BYTES - 9);
            std::ptr::copy_nonoverlapping(index.to_le_bytes().as_ptr(), p, 8);
            *p.add(8) = n as u8;
            std::ptr::copy_nonoverlapping(e.as_ptr(), p.add(9), n);
        }
        self.limit_ms[t].store(limit_ms, Ordering::Relaxed);
        self.started[t].store(self.t0.elapsed().as_millis() as u64 + 1, Ordering::Release);
    }

    #[inline]
    pub fn end(&self, t: usize) {
        self.started[t].store(0, Ordering::Release);
        unsafe {
            *self.base.add(t * SLOT_BYTES + 8) = 0;
        }
    }

    pub fn slot(&self, t: usize) -> Option<(String, u64)> {
        unsafe {
            let p = self.base.add(t * SLOT_BYTES);
            let n = *p.add(8) as usize;
            if n == 0 {
                return None;
            }
            let mut ib = [0u8; 8];
            std::ptr::copy_nonoverlapping(p, ib.as_mut_ptr(), 8);
            let e = std::slice::from_raw_parts(p.add(9), n);
            Some((String::from_utf8_lossy(e).to_string(), u64::from_le_bytes(ib)))
        }
    }

    /// returns Some((thread, engine, index)) if a case overran its limit
    pub fn overdue(&self) -> Option<(usize, String, u64)> {
        let now = self.t0.elapsed().as_millis() as u64 + 1;
        for t in 0..MAX_THREADS {
            let s = self.started[t].load(Ordering::Acquire);
            if s != 0 {
                let lim = self.limit_ms[t].load(Ordering::Relaxed);
                if lim != 0 && now > s + lim {
                    if let Some((e, i)) = self.slot(t) {
                        return Some((t, e, i));
                    }
                }
            }
        }
        None
    }
}

/// reads a progress file written by a (possibly dead) process
pub fn read_progress_file(path: &str) -> Vec<(String, u64)> {
    let mut out = Vec::new();
    if let Ok(b) = std::fs::read(path) {
        for t in 0..MAX_THREADS {
            let o = t * SLOT_BYTES;
            if b.len() < o + SLOT_BYTES {
                break;
            }
            let n = b[o + 8] as usize;
            if n == 0 {
                continue;
            }
            let idx = u64::from_le_bytes(b[o..o + 8].try_into().unwrap());
            out.push((String::from_utf8_lossy(&b[o + 9..o + 9 + n]).to_string(), idx));
        }
    }
    out
}

// ---------------------------------------------------------------------------------------------
// per-thread context handed to the engines

pub struct Ctx<'a> {
    pub cur: &'a dyn Subject,
    pub refb: &'a dyn Subject,
    pub tier: Tier,
    pub sel: Sel,
    pub thread: usize,
    pub nthreads: usize,
    pub progress: &'a Progress,
    pub property: &'a str,
    pub repo_samples: &'a str,
}

impl<'a> Ctx<'a> {
    pub fn quick(&self) -> bool {
        self.tier == Tier::Quick
    }
    /// true if this engine is selected at all (replay restricts to one engine)
    pub fn engine_on(&self, e: &str) -> bool {
        self.sel.only_engine.as_deref().map_or(true, |o| o == e)
    }
    /// should case `index` of `engine` be executed by this worker?
    #[inline]
    pub fn take(&self, engine: &str, index: u64) -> bool {
        if !self.sel.mine(index) {
            return false;
        }
        if !self.sel.skip.is_empty() && self.sel.skip.iter().any(|(e, i)| *i == index && e == engine) {
            return false;
        }
        true
    }
    #[inline]
    pub fn begin(&self, engine: &str, index: u64, limit_ms: u64) {
        self.progress.begin(self.thread, engine, index, limit_ms);
    }
    #[inline]
    pub fn end(&self) {
        self.progress.end(self.thread);
    }
    pub fn viol(
        &self,
        engine: &str,
        index: u64,
        class: &str,
        panic_site: Option<String>,
        detail: String,
        input: &[u8],
    ) -> Viol {
        Viol {
            property: self.property.to_string(),
            engine: engine.to_string(),
            index,
            class: class.to_string(),
            panic_site,
            detail,
            input_hex: hex_short(input),
        }
    }
}

/// per-case time limit: generous (normal cost is < 50 ms) so that a loaded machine cannot
/// turn into a verdict; a hang is confirmed by the driver in a fresh process anyway
pub fn limit_for(len: usize) -> u64 {
    if len <= 4096 {
        20_000
    } else {
        120_000
    }
}
