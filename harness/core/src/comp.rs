//! Real compressors and the reference inflater (zlib), via the -sys crates that the
//! repository's own test suite already uses.

use std::mem::MaybeUninit;

#[derive(Debug, Clone, PartialEq, Eq)]
pub struct Inflated {
    pub out: Vec<u8>,
    pub consumed: usize,
}

/// zlib raw inflate (windowBits -15). Ok only on Z_STREAM_END.
pub fn zlib_inflate_raw(data: &[u8], max_out: usize) -> Result<Inflated, i32> {
    use libz_sys::*;
    unsafe {
        let mut zs: z_stream = MaybeUninit::zeroed().assume_init();
        let rc = inflateInit2_(
            &mut zs,
            -15,
            zlibVersion(),
            std::mem::size_of::<z_stream>() as i32,
        );
        if rc != Z_OK {
            return Err(rc);
        }
        let mut out: Vec<u8> = Vec::new();
        let mut buf = vec![0u8; 1 << 16];
        zs.next_in = data.as_ptr() as *mut _;
        zs.avail_in = data.len() as u32;
        loop {
            zs.next_out = buf.as_mut_ptr();
            zs.avail_out = buf.len() as u32;
            let rc = inflate(&mut zs, Z_NO_FLUSH);
            let produced = buf.len() - zs.avail_out as usize;
            out.extend_from_slice(&buf[..produced]);
            if rc == Z_STREAM_END {
                let consumed = zs.total_in as usize;
                inflateEnd(&mut zs);
                return Ok(Inflated { out, consumed });
            }
            if rc != Z_OK || out.len() > max_out || (produced == 0 && zs.avail_in == 0) {
                inflateEnd(&mut zs);
                return Err(if rc == Z_OK { Z_BUF_ERROR } else { rc });
            }
        }
    }
}

/// zlib raw deflate with full parameter control; strategy: 0 default, 1 filtered, 2 huffman only, 3 rle, 4 fixed
pub fn zlib_deflate_raw(
    data: &[u8],
    level: i32,
    strategy: i32,
    window_bits: i32,
    mem_level: i32,
) -> Option<Vec<u8>> {
    use libz_sys::*;
    unsafe {
        let mut zs: z_stream = MaybeUninit::zeroed().assume_init();
        let rc = deflateInit2_(
            &mut zs,
            level,
            Z_DEFLATED,
            -window_bits,
            mem_level,
            strategy,
            zlibVersion(),
            std::mem::size_of::<z_stream>() as i32,
        );
        if rc != Z_OK {
            return None;
        }
        let mut out = vec![0u8; data.len() + data.len() / 8 + 1024];
        zs.next_in = data.as_ptr() as *mut _;
        zs.avail_in = data.len() as u32;
        zs.next_out = out.as_mut_ptr();
        zs.avail_out = out.len() as u32;
        let rc = deflate(&mut zs, Z_FINISH);
        let n = zs.total_out as usize;
        deflateEnd(&mut zs);
        if rc != Z_STREAM_END {
            return None;
        }
        out.truncate(n);
        Some(out)
    }
}

pub fn zlibng_deflate_raw(data: &[u8], level: i32) -> Option<Vec<u8>> {
    use libz_ng_sys::*;
    unsafe {
        let mut zs: z_stream = MaybeUninit::zeroed().assume_init();
        let rc = deflateInit2_(
            &mut zs,
            level,
            Z_DEFLATED,
            -15,
            8,
            Z_DEFAULT_STRATEGY,
            zlibVersion(),
            std::mem::size_of::<z_stream>() as i32,
        );
        if rc != Z_OK {
            return None;
        }
        let mut out = vec![0u8; data.len() + data.len() / 8 + 1024];
        zs.next_in = data.as_ptr() as *mut _;
        zs.avail_in = data.len() as u32;
        zs.next_out = out.as_mut_ptr();
        zs.avail_out = out.len() as u32;
        let rc = deflate(&mut zs, Z_FINISH);
        let n = zs.total_out as usize;
        deflateEnd(&mut zs);
        if rc != Z_STREAM_END {
            return None;
        }
        out.truncate(n);
        Some(out)
    }
}

pub fn libdeflate_raw(data: &[u8], level: i32) -> Option<Vec<u8>> {
    use libdeflate_sys::*;
    unsafe {
        let c = libdeflate_alloc_compressor(level);
        if c.is_null() {
            return None;
        }
        let mut out = vec![0u8; data.len() + data.len() / 8 + 1024];
        let n = libdeflate_deflate_compress(
            c,
            data.as_ptr() as *const _,
            data.len(),
            out.as_mut_ptr() as *mut _,
            out.len(),
        );
        libdeflate_free_compressor(c);
        if n == 0 {
            return None;
        }
        out.truncate(n);
        Some(out)
    }
}

pub fn miniz_raw(data: &[u8], level: u8) -> Vec<u8> {
    miniz_oxide::deflate::compress_to_vec(data, level)
}

#[derive(Clone, Copy, Debug, PartialEq, Eq)]
pub enum Comp {
    /// level, strategy, windowBits, memLevel
    Zlib(i32, i32, i32, i32),
    ZlibNg(i32),
    Libdeflate(i32),
    Miniz(u8),
}

impl Comp {
    pub fn family(&self) -> &'static str {
        match self {
            Comp::Zlib(..) => "zlib",
            Comp::ZlibNg(_) => "zlib-ng",
            Comp::Libdeflate(_) => "libdeflate",
            Comp::Miniz(_) => "miniz_oxide",
        }
    }
    pub fn run(&self, data: &[u8]) -> Option<Vec<u8>> {
        match *self {
            Comp::Zlib(l, s, w, m) => zlib_deflate_raw(data, l, s, w, m),
            Comp::ZlibNg(l) => zlibng_deflate_raw(data, l),
            Comp::Libdeflate(l) => libdeflate_raw(data, l),
            Comp::Miniz(l) => Some(miniz_raw(data, l)),
        }
    }
    pub fn describe(&self) -> String {
        format!("{:?}", self)
    }
}

/// the whole zlib configuration grid: level 0-9 x 5 strategies x windowBits 9-15 x memLevel 1-9
pub fn zlib_grid_full() -> Vec<Comp> {
    let mut v = Vec::new();
    for l in 0..=9 {
        for s in 0..=4 {
            for w in 9..=15 {
                for m in 1..=9 {
                    v.push(Comp::Zlib(l, s, w, m));
                }
            }
        }
    }
    v
}

/// 420-configuration sub-grid: all levels x all strategies, windowBits {9,12,15} x memLevel {1,8,9},
/// minus nothing (10*5*3*3 = 450) -- trimmed to window {9,15} for strategies 1 and 4
pub fn zlib_grid_quick() -> Vec<Comp> {
    let mut v = Vec::new();
    for l in 0..=9 {
        for s in 0..=4 {
            for &w in &[9, 12, 15] {
                if (s == 1 || s == 4) && w == 12 {
                    continue;
                }
                for &m in &[1, 8, 9] {
                    v.push(Comp::Zlib(l, s, w, m));
                }
            }
        }
    }
    v
}

pub fn other_comps() -> Vec<Comp> {
    let mut v = Vec::new();
    for l in 1..=9 {
        v.push(Comp::ZlibNg(l));
    }
    for l in 0..=12 {
        v.push(Comp::Libdeflate(l));
    }
    for l in 0..=10 {
        v.push(Comp::Miniz(l));
    }
    v
}

pub fn zstd_compress_bound(n: usize) -> usize {
    // ZSTD_COMPRESSBOUND macro from zstd.h
    n + (n >> 8)
        + if n < (128 << 10) {
            ((128 << 10) - n) >> 11
        } else {
            0
        }
}
