//! C01, C06, C11, C12, C13 and the container half of C04: properties quantified over files.

use crate::comp;
use crate::files::*;
use crate::mutspace;
use crate::props_stream::first_line;
use crate::rt::*;
use crate::streams::text_family;
use std::io::{Read, Write};

pub struct Emb {
    pub plain: Vec<u8>,
    pub stream: Vec<u8>,
    /// offset of the wrapper in the file
    pub start: usize,
    /// offset just past the wrapper
    pub end: usize,
    pub kind: WKind,
    pub supported: bool,
}

pub struct FileCase {
    pub bytes: Vec<u8>,
    pub descr: String,
    pub embedded: Vec<Emb>,
}

pub type FSink<'s> = &'s mut dyn FnMut(&mut Local, &str, u64, &FileCase);

fn deliver(ctx: &Ctx, name: &str, st: &mut Local, idx: u64, case: FileCase, f: FSink) {
    st.sample(name, || format!("#{} {} [{}]", idx, hex_short(&case.bytes[..case.bytes.len().min(48)]), case.descr));
    ctx.begin(name, idx, limit_for(case.bytes.len()).max(20_000));
    f(st, name, idx, &case);
    ctx.end();
}

fn count(ctx: &Ctx, name: &str, st: &mut Local, i: u64, nontrivial: bool) {
    if ctx.sel.mine(i) {
        let e = st.eng(name);
        e.states += 1;
        e.transitions += 1;
        if nontrivial {
            e.nontrivial += 1;
        }
    }
}

pub struct E9Cfg {
    pub full_wrappers: bool,
    pub junk_pre: Vec<usize>,
    pub junk_post: Vec<usize>,
    pub odd: bool,
    pub depth2: bool,
    pub only_supported: bool,
}

/// depth-1 files J W(S) J, odd files, depth-2 files J W(S) J W(S) J
pub fn e9_filespace(ctx: &Ctx, name: &str, cfg: &E9Cfg, st: &mut Local, f: FSink) {
    if !ctx.engine_on(name) {
        return;
    }
    let streams = stream_menu();
    let wrappers = wrapper_menu(cfg.full_wrappers);
    let junk = junk_menu();
    let mut idx = 0u64;
    for s in &streams {
        for w in &wrappers {
            if cfg.only_supported && !w.supported {
                continue;
            }
            for &jp in &cfg.junk_pre {
                for &jq in &cfg.junk_post {
                    let i = idx;
                    idx += 1;
                    count(ctx, name, st, i, true);
                    if !ctx.take(name, i) {
                        continue;
                    }
                    let mut bytes = junk[jp].clone();
                    let start = bytes.len();
                    bytes.extend_from_slice(&(w.build)(s));
                    let end = bytes.len();
                    bytes.extend_from_slice(&junk[jq]);
                    let case = FileCase {
                        bytes,
                        descr: format!("junk{} + {}({}) + junk{}", jp, w.descr, s.name, jq),
                        embedded: vec![Emb { plain: s.plain.clone(), stream: s.stream.clone(), start, end, kind: w.kind, supported: w.supported }],
                    };
                    deliver(ctx, name, st, i, case, f);
                }
            }
        }
    }
    if cfg.odd {
        let mut odd = png_odd_menu();
        let rej = rejected_stream();
        for w in wrapper_menu(false).into_iter().filter(|w| w.supported).step_by(7) {
            odd.push(w);
        }
        for (k, w) in odd.iter().enumerate() {
            for s in [&streams[5], &streams[0], &rej] {
                for &jp in &[0usize, 1] {
                    let i = idx;
                    idx += 1;
                    count(ctx, name, st, i, true);
                    if !ctx.take(name, i) {
                        continue;
                    }
                    let mut bytes = junk[jp].clone();
                    let start = bytes.len();
                    bytes.extend_from_slice(&(w.build)(s));
                    let end = bytes.len();
                    let case = FileCase {
                        bytes,
                        descr: format!("odd{} junk{} + {}({})", k, jp, w.descr, s.name),
                        embedded: vec![Emb { plain: s.plain.clone(), stream: s.stream.clone(), start, end, kind: w.kind, supported: false }],
                    };
                    deliver(ctx, name, st, i, case, f);
                }
            }
        }
    }
    if cfg.depth2 {
        let ws: Vec<&Wrapper> = wrappers.iter().filter(|w| w.supported).step_by(wrappers.len() / 9 + 1).collect();
        let ss = [&streams[0], &streams[4], &streams[5]];
        for w1 in &ws {
            for w2 in &ws {
                for (si, s1) in ss.iter().enumerate() {
                    let s2 = ss[(si + 1) % ss.len()];
                    for &jm in &[0usize, 1, 3, 11] {
                        let i = idx;
                        idx += 1;
                        count(ctx, name, st, i, true);
                        if !ctx.take(name, i) {
                            continue;
                        }
                        let mut bytes = junk[1].clone();
                        let st1 = bytes.len();
                        bytes.extend_from_slice(&(w1.build)(s1));
                        let en1 = bytes.len();
                        bytes.extend_from_slice(&junk[jm]);
                        let st2 = bytes.len();
                        bytes.extend_from_slice(&(w2.build)(s2));
                        let en2 = bytes.len();
                        bytes.extend_from_slice(&junk[2]);
                        let case = FileCase {
                            bytes,
                            descr: format!("{}({}) + junk{} + {}({})", w1.descr, s1.name, jm, w2.descr, s2.name),
                            embedded: vec![
                                Emb { plain: s1.plain.clone(), stream: s1.stream.clone(), start: st1, end: en1, kind: w1.kind, supported: true },
                                Emb { plain: s2.plain.clone(), stream: s2.stream.clone(), start: st2, end: en2, kind: w2.kind, supported: true },
                            ],
                        };
                        deliver(ctx, name, st, i, case, f);
                    }
                }
            }
        }
    }
    let e = st.eng(name);
    e.bound = format!(
        "{} streams x {} wrappers{} x {} prefix junk x {} suffix junk{}{}",
        streams.len(),
        wrappers.len(),
        if cfg.only_supported { " (supported variants)" } else { "" },
        cfg.junk_pre.len(),
        cfg.junk_post.len(),
        if cfg.odd { "; odd PNG/zip menu (zero-length chunks, 0-9 trailing bytes, bad CRC, bytes before the Adler-32, IDAT payloads of 0-8 bytes, zip fields past EOF) x 3 streams x 2 junk" } else { "" },
        if cfg.depth2 { "; depth-2 files: 9x9 wrapper pairs x 3 stream pairs x 4 separators" } else { "" }
    );
    e.exhaustive = true;
}

/// structure string of a container, e.g. "L D L"
fn structure(c: &[u8]) -> String {
    match parse_container(c) {
        None => "unparseable".into(),
        Some(ch) => ch
            .iter()
            .map(|c| match c {
                Chunk::Literal(_) => "L",
                Chunk::Deflate { .. } => "D",
                Chunk::Png { .. } => "P",
            })
            .collect::<Vec<_>>()
            .join(""),
    }
}

// ---------------------------------------------------------------------------------------------
// C01

/// the C01 oracle; returns the expanded container when everything held
pub fn c01_check(ctx: &Ctx, st: &mut Local, eng: &str, idx: u64, f: &[u8], with_zstd: bool) -> Option<Vec<u8>> {
    let s = ctx.cur;
    let e = match caught(|| s.expand(f)) {
        Err(p) => {
            st.violation(ctx.viol(eng, idx, "expand-panic", Some(p.loc.clone()), format!("expand_zlib_chunks panicked: {}", p.msg), f));
            return None;
        }
        Ok(Err(e)) => {
            st.violation(ctx.viol(eng, idx, "expand-err", None, format!("expand_zlib_chunks returned Err: {}", first_line(&e.msg)), f));
            return None;
        }
        Ok(Ok(e)) => e,
    };
    match caught(|| recreate_vec(s, &e)) {
        Err(p) => {
            st.violation(ctx.viol(eng, idx, "recreate-panic", Some(p.loc.clone()), format!("recreated_zlib_chunks panicked: {}", p.msg), f));
            return None;
        }
        Ok(Err(er)) => {
            st.violation(ctx.viol(eng, idx, "recreate-err", None, format!("expand Ok ({}), recreate Err: {}", structure(&e), first_line(&er.msg)), f));
            return None;
        }
        Ok(Ok(back)) => {
            if back != f {
                let at = back.iter().zip(f.iter()).position(|(a, b)| a != b).unwrap_or(back.len().min(f.len()));
                st.violation(ctx.viol(eng, idx, "roundtrip-differs", None,
                    format!("recreated {} bytes differ from the {} byte file at offset {} (container {})", back.len(), f.len(), at, structure(&e)), f));
                return None;
            }
        }
    }
    // the log level is an argument of expand_zlib_chunks too: with logging on (output goes to stdout) the call must
    // neither panic nor return anything else; every 4th small file (not the all-byte-strings engine: strings of <= 4 bytes hold no stream)
    if idx % 4 == 0 && f.len() <= 4000 && !eng.starts_with("E7") {
        match caught(|| s.expand_log(f, 1)) {
            Err(p) => {
                st.violation(ctx.viol(eng, idx, "expand-panic-with-logging", Some(p.loc.clone()), format!("expand_zlib_chunks(.., loglevel 1) panicked: {}", p.msg), f));
                return None;
            }
            Ok(Ok(e1)) if e1 == e => {}
            other => {
                st.violation(ctx.viol(eng, idx, "expand-differs-with-logging", None,
                    format!("expand_zlib_chunks(.., loglevel 1) gives {:?} instead of the {} byte container of loglevel 0", other.map(|r| r.map(|v| v.len()).map_err(|er| first_line(&er.msg))).map_err(|p| p.loc), e.len()), f));
                return None;
            }
        }
    }
    if with_zstd {
        match caught(|| s.compress_zstd(f)) {
            Ok(Ok(z)) => match caught(|| s.decompress_zstd(&z, e.len() + 16)) {
                Ok(Ok(back)) if back == f => {}
                other => {
                    let d = match other {
                        Err(p) => format!("panic at {}", p.loc),
                        Ok(Err(er)) => format!("Err({})", first_line(&er.msg)),
                        Ok(Ok(b)) => format!("{} bytes instead of {}", b.len(), f.len()),
                    };
                    st.violation(ctx.viol(eng, idx, "zstd-roundtrip-fails", None, format!("decompress_zstd(compress_zstd(F)): {}", d), f));
                    return None;
                }
            },
            Err(p) => {
                st.violation(ctx.viol(eng, idx, "zstd-compress-panic", Some(p.loc.clone()), p.msg.clone(), f));
                return None;
            }
            Ok(Err(er)) => {
                st.violation(ctx.viol(eng, idx, "zstd-compress-err", None, first_line(&er.msg), f));
                return None;
            }
        }
    }
    st.outcome(eng, &format!("roundtrip[{}]", structure(&e)));
    Some(e)
}

/// small files whose whole single-mutation neighbourhood is explored
pub fn small_files(quick: bool) -> Vec<(String, Vec<u8>)> {
    let streams = stream_menu();
    let s = &streams[0];
    let mut v = Vec::new();
    for w in wrapper_menu(false) {
        if w.kind == WKind::Png {
            continue;
        }
        let b = (w.build)(s);
        if b.len() <= 64 {
            v.push((w.descr.clone(), b));
        }
    }
    if quick {
        // zlib x2, gzip x4, zip x2
        let keep = ["zlib 789c", "zlib 7801", "gzip fhcrc=0 fextra=0 fname=0 fcomment=0 fieldlen=0", "gzip fhcrc=1 fextra=1 fname=1 fcomment=1 fieldlen=5",
            "gzip ftext", "gzip fhcrc=0 fextra=0 fname=1 fcomment=0 fieldlen=5", "zip method 8 name 0 extra 0", "zip method 8 name 9 extra 9"];
        v.retain(|(d, _)| keep.contains(&d.as_str()));
    }
    v
}

const SUB_MENU: [u8; 8] = [0x00, 0x01, 0x08, 0x78, 0x9c, 0x7f, 0x80, 0xff];

pub fn e8_file_mutants(ctx: &Ctx, name: &str, st: &mut Local, f: mutspace::BSink) {
    if !ctx.engine_on(name) {
        return;
    }
    let files = small_files(ctx.quick());
    let mut idx = 0u64;
    for (_d, seed) in &files {
        let n = seed.len();
        let mut emit = |st: &mut Local, idx: &mut u64, mk: &mut dyn FnMut() -> Vec<u8>| {
            let i = *idx;
            *idx += 1;
            count(ctx, name, st, i, true);
            if ctx.take(name, i) {
                let b = mk();
                if i % 4999 == 0 {
                    st.sample(name, || format!("#{} {}", i, hex_short(&b)));
                }
                ctx.begin(name, i, 20_000);
                f(st, name, i, &b);
                ctx.end();
            }
        };
        for k in 0..=n {
            emit(st, &mut idx, &mut || seed[..k].to_vec());
        }
        for k in 0..n {
            for v in 0..=255u8 {
                if v != seed[k] {
                    emit(st, &mut idx, &mut || {
                        let mut b = seed.clone();
                        b[k] = v;
                        b
                    });
                }
            }
        }
        for k in 0..n {
            emit(st, &mut idx, &mut || {
                let mut b = seed.clone();
                b.remove(k);
                b
            });
        }
        for k in 0..=n {
            for &v in &[0x00u8, 0xff, 0x78, 0x50] {
                emit(st, &mut idx, &mut || {
                    let mut b = seed.clone();
                    b.insert(k, v);
                    b
                });
            }
        }
        // pairs of substitutions inside the header bytes (before the stream) from an 8-value menu
        if !ctx.quick() {
            let hdr = n.saturating_sub(11 + 4).min(14);
            for a in 0..hdr {
                for b2 in a + 1..hdr {
                    for &va in &SUB_MENU {
                        for &vb in &SUB_MENU {
                            emit(st, &mut idx, &mut || {
                                let mut b = seed.clone();
                                b[a] = va;
                                b[b2] = vb;
                                b
                            });
                        }
                    }
                }
            }
        }
    }
    // splices prefix(A,i) ++ suffix(B,j)
    let sp: Vec<&Vec<u8>> = files.iter().map(|x| &x.1).step_by(if ctx.quick() { 3 } else { 1 }).collect();
    for a in &sp {
        for b in &sp {
            if std::ptr::eq(*a, *b) {
                continue;
            }
            for i in 0..=a.len() {
                for j in 0..=b.len() {
                    if ctx.quick() && (i + j) % 3 != 0 {
                        continue;
                    }
                    let ii = idx;
                    idx += 1;
                    count(ctx, name, st, ii, true);
                    if ctx.take(name, ii) {
                        let mut v = a[..i].to_vec();
                        v.extend_from_slice(&b[j..]);
                        ctx.begin(name, ii, 20_000);
                        f(st, name, ii, &v);
                        ctx.end();
                    }
                }
            }
        }
    }
    let e = st.eng(name);
    e.bound = format!(
        "{} wrapper files of <= 64 bytes around the 11-byte RLE stream: every prefix, every single-byte substitution (255 values x every offset), every deletion, 4-value insertion at every offset{}; splices prefix(A,i)++suffix(B,j) over {} files{}",
        files.len(),
        if ctx.quick() { "" } else { ", all pairs of 8-value substitutions in the header bytes" },
        sp.len(),
        if ctx.quick() { " (i+j divisible by 3)" } else { " (all i, j)" }
    );
    e.exhaustive = true;
}

/// PNG files: every prefix in the framing regions and substitutions around the chunk framing
pub fn e8_png_mutants(ctx: &Ctx, name: &str, st: &mut Local, f: mutspace::BSink) {
    if !ctx.engine_on(name) {
        return;
    }
    let streams = stream_menu();
    let ws: Vec<Wrapper> = wrapper_menu(false).into_iter().filter(|w| w.kind == WKind::Png).collect();
    let picks: Vec<&Wrapper> = if ctx.quick() { vec![&ws[0], &ws[6]] } else { ws.iter().step_by(2).collect() };
    let mut idx = 0u64;
    for w in &picks {
        let seed = (w.build)(&streams[5]);
        let n = seed.len();
        // framing regions: first 64 bytes, +-12 around every "IDAT"/"IEND" tag, last 40 bytes
        let mut region = vec![false; n];
        for r in region.iter_mut().take(64.min(n)) {
            *r = true;
        }
        for r in region.iter_mut().skip(n.saturating_sub(40)) {
            *r = true;
        }
        for p in 0..n.saturating_sub(4) {
            if &seed[p..p + 4] == b"IDAT" || &seed[p..p + 4] == b"IEND" {
                for r in region.iter_mut().take((p + 16).min(n)).skip(p.saturating_sub(16)) {
                    *r = true;
                }
            }
        }
        let mut emit = |st: &mut Local, idx: &mut u64, mk: &mut dyn FnMut() -> Vec<u8>| {
            let i = *idx;
            *idx += 1;
            count(ctx, name, st, i, true);
            if ctx.take(name, i) {
                let b = mk();
                ctx.begin(name, i, 20_000);
                f(st, name, i, &b);
                ctx.end();
            }
        };
        for k in 0..=n {
            if k == n || region[k] || k % 97 == 0 {
                emit(st, &mut idx, &mut || seed[..k].to_vec());
            }
        }
        for k in 0..n {
            if region[k] {
                let vals: Vec<u8> = if ctx.quick() { SUB_MENU.to_vec() } else { (0..=255u8).collect() };
                for v in vals {
                    if v != seed[k] {
                        emit(st, &mut idx, &mut || {
                            let mut b = seed.clone();
                            b[k] = v;
                            b
                        });
                    }
                }
                emit(st, &mut idx, &mut || {
                    let mut b = seed.clone();
                    b.remove(k);
                    b
                });
                emit(st, &mut idx, &mut || {
                    let mut b = seed.clone();
                    b.insert(k, 0x49);
                    b
                });
            } else if k % 7 == 0 {
                for &v in &[0x00u8, 0xff, 0x49, 0x78] {
                    emit(st, &mut idx, &mut || {
                        let mut b = seed.clone();
                        b[k] = v;
                        b
                    });
                }
            }
        }
    }
    let e = st.eng(name);
    e.bound = format!(
        "{} PNG files (1.1 KiB stored stream): every prefix ending in a framing region (first 64 bytes, +-16 around every chunk tag, last 40 bytes) and every 97th other prefix; in framing regions every {} substitution, deletion and one insertion per offset; elsewhere 4 substitutions at every 7th offset",
        picks.len(),
        if ctx.quick() { "8-value" } else { "single-byte (255 values)" }
    );
    e.exhaustive = true;
}

pub fn literal_sizes(ctx: &Ctx, name: &str, st: &mut Local, f: mutspace::BSink) {
    if !ctx.engine_on(name) {
        return;
    }
    let sizes: &[usize] = if ctx.quick() {
        &[0, 1, 127, 128, 16383, 16384, 65535, 65536, 65537, 70000, 131071, 131072, 196608, 2097151, 2097152]
    } else {
        &[0, 1, 2, 127, 128, 129, 16383, 16384, 16385, 65535, 65536, 65537, 70000, 131072, 131073, 2097151, 2097152]
    };
    let mut idx = 0;
    for &n in sizes {
        for kind in [4usize, 3] {
            let i = idx;
            idx += 1;
            count(ctx, name, st, i, n > 0);
            if ctx.take(name, i) {
                let b = text_family(kind, n);
                ctx.begin(name, i, 60_000);
                f(st, name, i, &b);
                ctx.end();
            }
        }
    }
    let e = st.eng(name);
    e.bound = format!("files of sizes {:?} (noise and long runs) that cross the varint and 64 KiB copy-buffer thresholds", sizes);
    e.exhaustive = true;
}

/// files with large embedded streams (plaintext / correction length varints, several chunks)
pub fn big_wrapped(ctx: &Ctx, name: &str, st: &mut Local, f: mutspace::BSink) {
    if !ctx.engine_on(name) {
        return;
    }
    let specs: Vec<(usize, usize, comp::Comp)> = if ctx.quick() {
        vec![(8, 20_000, comp::Comp::Zlib(6, 0, 15, 8)), (1, 140_000, comp::Comp::Zlib(1, 0, 15, 8)), (8, 70_000, comp::Comp::Libdeflate(6))]
    } else {
        vec![(8, 20_000, comp::Comp::Zlib(6, 0, 15, 8)), (1, 140_000, comp::Comp::Zlib(1, 0, 15, 8)), (8, 70_000, comp::Comp::Libdeflate(6)),
            (8, 300_000, comp::Comp::Zlib(9, 0, 15, 9)), (2, 2_200_000, comp::Comp::Zlib(6, 0, 15, 8)), (3, 200_000, comp::Comp::Miniz(6)), (4, 70_000, comp::Comp::Zlib(0, 0, 15, 8))]
    };
    let mut idx = 0;
    for (k, n, c) in specs {
        for wrapper in 0..3 {
            let i = idx;
            idx += 1;
            count(ctx, name, st, i, true);
            if !ctx.take(name, i) {
                continue;
            }
            let p = text_family(k, n);
            let s = match c.run(&p) {
                Some(s) => s,
                None => continue,
            };
            let mut file = b"leading literal bytes".to_vec();
            match wrapper {
                0 => file.extend_from_slice(&crate::wrap::zlib_wrap([0x78, 0x9c], &s, &p)),
                1 => file.extend_from_slice(&crate::wrap::gzip_wrap(&crate::wrap::GzOpts { name: Some(b"big.txt".to_vec()), method: 8, ..Default::default() }, &s, &p)),
                _ => {
                    let z = crate::wrap::zlib_wrap([0x78, 0xda], &s, &p);
                    let splits: Vec<usize> = (1..z.len() / 8192 + 1).map(|j| j * 8192).collect();
                    file.extend_from_slice(&crate::wrap::png_wrap(&z, &splits, true));
                }
            }
            file.extend_from_slice(&text_family(4, 300));
            st.sample(name, || format!("#{} {} bytes: text{}/{} via {:?} wrapper {}", i, file.len(), k, n, c, wrapper));
            ctx.begin(name, i, 300_000);
            f(st, name, i, &file);
            ctx.end();
        }
    }
    let e = st.eng(name);
    e.bound = "large embedded streams (20 KB - 2.2 MB of plaintext) behind zlib, gzip and multi-chunk PNG wrappers, surrounded by literal data".into();
    e.exhaustive = true;
}

pub fn run_c01(ctx: &Ctx, st: &mut Local) {
    let cfg = if ctx.quick() {
        E9Cfg { full_wrappers: false, junk_pre: vec![0, 3, 6, 11, 16, 19, 21, 23], junk_post: vec![0, 1, 8], odd: true, depth2: true, only_supported: false }
    } else {
        E9Cfg { full_wrappers: true, junk_pre: (0..24).collect(), junk_post: (0..16).collect(), odd: true, depth2: true, only_supported: false }
    };
    let mut f = |st: &mut Local, eng: &str, i: u64, c: &FileCase| {
        c01_check(ctx, st, eng, i, &c.bytes, true);
    };
    e9_filespace(ctx, "E9", &cfg, st, &mut f);
    let mut g = |st: &mut Local, eng: &str, i: u64, b: &[u8]| {
        c01_check(ctx, st, eng, i, b, true);
    };
    e8_file_mutants(ctx, "E8f", st, &mut g);
    e8_png_mutants(ctx, "E8png", st, &mut g);
    literal_sizes(ctx, "Sizes", st, &mut g);
    big_wrapped(ctx, "BigFiles", st, &mut g);
    mutspace::e7_bytespace(ctx, "E7", if ctx.quick() { 2 } else { 3 }, st, &mut g);
    if !ctx.quick() {
        let mut h = |st: &mut Local, eng: &str, i: u64, b: &[u8]| {
            c01_check(ctx, st, eng, i, b, false);
        };
        mutspace::e7_bytespace(ctx, "E7(4,no-zstd)", 4, st, &mut h);
    }
}

// ---------------------------------------------------------------------------------------------
// C06

fn find(hay: &[u8], needle: &[u8]) -> bool {
    if needle.is_empty() {
        return true;
    }
    hay.windows(needle.len()).any(|w| w == needle)
}

/// does any offset inside the wrapper (other than the stream itself) start a stream that the library
/// accepts with more than 1024 bytes of plaintext? (a self-contained final block, for instance)
fn wrapper_has_other_acceptable_start(s: &dyn Subject, wrapper: &[u8], plain: &[u8]) -> bool {
    use std::collections::HashMap;
    use std::sync::Mutex;
    static CACHE: Mutex<Option<HashMap<u64, bool>>> = Mutex::new(None);
    let key = crate::props_c14::fnv(wrapper) ^ (wrapper.len() as u64).rotate_left(40);
    if let Some(v) = CACHE.lock().unwrap_or_else(|e| e.into_inner()).get_or_insert_with(HashMap::new).get(&key) {
        return *v;
    }
    let mut found = false;
    for q in 0..wrapper.len() {
        if let Ok(Ok(r)) = caught(|| s.decompress(&wrapper[q..], true)) {
            if r.plain.len() > 1024 && r.plain != plain {
                found = true;
                break;
            }
        }
    }
    CACHE.lock().unwrap_or_else(|e| e.into_inner()).get_or_insert_with(HashMap::new).insert(key, found);
    found
}

const SIGS: [[u8; 2]; 7] = [[0x78, 0x01], [0x78, 0x5e], [0x78, 0x9c], [0x78, 0xda], [0x50, 0x4b], [0x1f, 0x8b], [0x49, 0x44]];

pub fn c06_check(ctx: &Ctx, st: &mut Local, eng: &str, idx: u64, c: &FileCase) {
    let s = ctx.cur;
    // C01 first (round trip), it also gives the container
    let cont = match c01_check(ctx, st, eng, idx, &c.bytes, false) {
        None => return,
        Some(x) => x,
    };
    // c01_check already counted an outcome for this trace; refine it below without double counting
    let chunks = match parse_container(&cont) {
        Some(x) => x,
        None => {
            st.violation(ctx.viol(eng, idx, "container-unparseable", None, "expanded container does not follow the chunk format".into(), &c.bytes));
            return;
        }
    };
    if std::env::var("PFV_DEBUG").is_ok() {
        let d: Vec<String> = chunks.iter().map(|ch| match ch {
            Chunk::Literal(b) => format!("L{}", b.len()),
            Chunk::Deflate { plain, corr } => format!("D(plain {}, corr {})", plain.len(), corr.len()),
            Chunk::Png { sizes, plain, corr } => format!("P(sizes {:?}, plain {}, corr {})", sizes, plain.len(), corr.len()),
        }).collect();
        eprintln!("DEBUG chunks of {} ({} bytes; embedded at {:?}): {:?}", c.descr, c.bytes.len(), c.embedded.iter().map(|e| (e.start, e.end)).collect::<Vec<_>>(), d);
    }
    let mut judged = 0;
    for (k, emb) in c.embedded.iter().enumerate() {
        if !emb.supported {
            continue;
        }
        // precondition 1: S alone is accepted with > 1024 bytes of plaintext
        let alone = caught(|| s.decompress(&emb.stream, true));
        let ok = matches!(&alone, Ok(Ok(r)) if r.plain.len() > 1024 && r.size == emb.stream.len());
        if !ok {
            st.eng(eng).outcomes.entry("precondition:stream-not-accepted-alone".into()).and_modify(|x| *x += 1).or_insert(1);
            continue;
        }
        // PNG: consecutive IDAT chunks must total more than 1024 bytes
        if emb.kind == WKind::Png && emb.stream.len() + 6 + 12 <= 1024 {
            st.eng(eng).outcomes.entry("precondition:idat-total-not-above-1024".into()).and_modify(|x| *x += 1).or_insert(1);
            continue;
        }
        // precondition 2: no signature look-alike before this wrapper starts an acceptable stream
        // (over-approximated: any offset within 400 bytes after such a look-alike)
        // everything in front of this wrapper counts as "preceding bytes", including an earlier wrapper
        // (whose own detection may fail, e.g. an IDAT run below the size threshold, so that a garbled
        // probe inside it can run on into this wrapper)
        let lo = 0;
        let mut clean = true;
        let first_lookalike = (lo..emb.start).find(|&p| p + 1 < c.bytes.len() && SIGS.iter().any(|sg| c.bytes[p] == sg[0] && c.bytes[p + 1] == sg[1]));
        if let Some(p0) = first_lookalike {
            // a probe that starts at a look-alike may skip a variable number of bytes (gzip / zip header
            // fields), so it can land anywhere behind it: (a) inside the junk, checked per file;
            // (b) inside the wrapper that follows, checked once per wrapper and cached
            for q in p0 + 1..emb.start {
                if let Ok(Ok(r)) = caught(|| s.decompress(&c.bytes[q..], true)) {
                    if r.plain.len() > 1024 && q + r.size > emb.start && r.plain != emb.plain {
                        clean = false;
                        break;
                    }
                }
            }
            if clean && wrapper_has_other_acceptable_start(s, &c.bytes[emb.start..emb.end], &emb.plain) {
                clean = false;
            }
            if !clean && std::env::var("PFV_DEBUG").is_ok() {
                eprintln!("DEBUG junk-forms: {}", c.descr);
            }
        }
        if !clean {
            st.eng(eng).outcomes.entry("precondition:junk-forms-an-acceptable-stream".into()).and_modify(|x| *x += 1).or_insert(1);
            continue;
        }
        judged += 1;
        let found = chunks.iter().any(|ch| match ch {
            Chunk::Deflate { plain, .. } | Chunk::Png { plain, .. } => *plain == emb.plain,
            _ => false,
        });
        if !found {
            let any = find(&cont, &emb.plain);
            st.violation(ctx.viol(eng, idx, "embedded-stream-not-expanded", None,
                format!("embedded stream #{} ({:?}, {} plaintext bytes) is not carried as an expanded chunk (container {}, plaintext present anywhere: {}) in {}",
                    k, emb.kind, emb.plain.len(), structure(&cont), any, c.descr), &c.bytes));
            return;
        }
    }
    if judged > 0 {
        st.eng(eng).outcomes.entry("detected-and-expanded".into()).and_modify(|x| *x += 1).or_insert(1);
    }
}

pub fn run_c06(ctx: &Ctx, st: &mut Local) {
    let cfg = if ctx.quick() {
        E9Cfg { full_wrappers: false, junk_pre: vec![0, 1, 3, 6, 8, 11, 12, 15, 16, 17, 18, 19, 20, 21, 22, 23], junk_post: vec![0, 1, 3, 10], odd: false, depth2: true, only_supported: true }
    } else {
        E9Cfg { full_wrappers: true, junk_pre: (0..24).collect(), junk_post: (0..16).collect(), odd: false, depth2: true, only_supported: true }
    };
    let mut f = |st: &mut Local, eng: &str, i: u64, c: &FileCase| c06_check(ctx, st, eng, i, c);
    e9_filespace(ctx, "E9", &cfg, st, &mut f);
}

// ---------------------------------------------------------------------------------------------
// C04, container half: reference writes, current reads

pub fn c04_file_check(ctx: &Ctx, st: &mut Local, eng: &str, idx: u64, f: &[u8]) {
    let e = match caught(|| ctx.refb.expand(f)) {
        Ok(Ok(e)) => e,
        Ok(Err(_)) => {
            st.outcome(eng, "reference-rejects");
            return;
        }
        Err(p) => {
            st.outcome(eng, &format!("reference-panics@{}", p.loc));
            return;
        }
    };
    // only containers the reference itself can read back are "accepted by the reference build"
    match caught(|| recreate_vec(ctx.refb, &e)) {
        Ok(Ok(b)) if b == f => {}
        _ => {
            st.outcome(eng, "reference-cannot-read-its-own-container");
            return;
        }
    }
    match caught(|| recreate_vec(ctx.cur, &e)) {
        Err(p) => st.violation(ctx.viol(eng, idx, "current-panics-on-reference-container", Some(p.loc.clone()), p.msg.clone(), f)),
        Ok(Err(er)) => st.violation(ctx.viol(eng, idx, "current-rejects-reference-container", None,
            format!("container {} written by the reference: {}", structure(&e), first_line(&er.msg)), f)),
        Ok(Ok(b)) => {
            if b != f {
                st.violation(ctx.viol(eng, idx, "current-recreates-reference-container-differently", None,
                    format!("container {} written by the reference is recreated as {} bytes instead of {}", structure(&e), b.len(), f.len()), f));
            } else {
                st.outcome(eng, &format!("reference-container-recreated[{}]", structure(&e)));
            }
        }
    }
}

// ---------------------------------------------------------------------------------------------
// file menus for C11 / C12 / C13

pub fn file_menu(quick: bool) -> Vec<(String, Vec<u8>)> {
    let streams = stream_menu();
    let wr = wrapper_menu(false);
    let junk = junk_menu();
    let mut v: Vec<(String, Vec<u8>)> = Vec::new();
    let step = if quick { 9 } else { 3 };
    for (si, s) in streams.iter().enumerate() {
        for (wi, w) in wr.iter().enumerate() {
            if (wi + si * 2) % step != 0 {
                continue;
            }
            let mut b = junk[(wi + si) % junk.len()].clone();
            b.extend_from_slice(&(w.build)(s));
            b.extend_from_slice(&junk[(wi * 3 + si) % junk.len()]);
            v.push((format!("{}({})", w.descr, s.name), b));
        }
    }
    // explicit entries: a bare IDAT run at offset 0 (first chunk of the container is an empty literal),
    // streams that are larger than their plaintext (file larger than its expanded form)
    for w in wr.iter().filter(|w| w.descr.starts_with("bare IDAT run")) {
        v.push((format!("{}(stored1100) at offset 0", w.descr), (w.build)(&streams[5])));
    }
    for s in streams.iter().filter(|s| s.name == "noise-as-fixed-literals" || s.name == "forty-stored-blocks") {
        v.push((format!("zlib 789c({})", s.name), (wr[2].build)(s)));
    }
    // PNGs whose IDAT run is longer than 1024 bytes in the file while carrying at most 1024 bytes of plaintext: a stored
    // stream of 1018 noise bytes in one chunk, and a 500-byte text in 8-byte chunks
    {
        use crate::model::{serialise, Block, Stream};
        let noise = text_family(4, 1018);
        let sd = serialise(&Stream { blocks: vec![Block::Stored { data: noise.clone(), pad: 0 }], final_pad: 0 });
        v.push(("png stored 1018 bytes in one IDAT chunk".into(), crate::wrap::png_wrap(&crate::wrap::zlib_wrap([0x78, 0x01], &sd, &noise), &[], true)));
        let t = text_family(1, 500);
        if let Some(sd) = crate::comp::zlib_deflate_raw(&t, 6, 0, 15, 8) {
            let z = crate::wrap::zlib_wrap([0x78, 0x9c], &sd, &t);
            let splits: Vec<usize> = (1..z.len() / 8 + 1).map(|k| k * 8).collect();
            v.push(("png 500 bytes of text in 8-byte IDAT chunks".into(), crate::wrap::png_wrap(&z, &splits, true)));
        }
    }
    // multi-stream file
    let mut m = b"head".to_vec();
    m.extend_from_slice(&(wr[2].build)(&streams[0]));
    m.extend_from_slice(b"--");
    m.extend_from_slice(&(wr[7].build)(&streams[4]));
    m.extend_from_slice(&(wr.iter().find(|w| w.kind == WKind::Png).unwrap().build)(&streams[5]));
    m.extend_from_slice(b"tail");
    v.push(("multi".into(), m));
    for n in [0usize, 1, 5, 127, 128, 300] {
        v.push((format!("literal{}", n), text_family(4, n)));
    }
    v.push(("literal65536".into(), text_family(4, 65536)));
    v.push(("literal70000".into(), text_family(4, 70000)));
    v.push(("zeros131072".into(), vec![0u8; 131072]));
    v
}

// ---------------------------------------------------------------------------------------------
// C11

pub fn run_c11(ctx: &Ctx, st: &mut Local) {
    let name = "E14zstd";
    let s = ctx.cur;
    if ctx.engine_on(name) {
        let files = file_menu(ctx.quick());
        let mut idx = 0u64;
        for (d, f) in &files {
            // capacities
            let size = match caught(|| s.expand(f)) {
                Ok(Ok(e)) => e.len(),
                _ => {
                    // C01's business; count and move on
                    let i = idx;
                    idx += 1;
                    if ctx.take(name, i) {
                        st.outcome(name, "expand-fails(C01)");
                    }
                    continue;
                }
            };
            let every = f.len() <= 400 || (!ctx.quick() && f.len() <= 4096);
            let caps: Vec<usize> = if every {
                (0..=size + 16).collect()
            } else {
                let mut c = vec![0, 1, size / 2, size - 1, size, size + 1, size + 7, 2 * size, 1 << 20, 128 << 20];
                c.sort();
                c.dedup();
                c
            };
            let mut frame: Option<Vec<u8>> = None;
            for cap in caps {
                let i = idx;
                idx += 1;
                count(ctx, name, st, i, true);
                if !ctx.take(name, i) {
                    continue;
                }
                if frame.is_none() {
                    frame = match caught(|| s.compress_zstd(f)) {
                        Ok(Ok(z)) => Some(z),
                        other => {
                            st.violation(ctx.viol(name, i, "compress-zstd-fails", None, format!("{:?}", other.map(|r| r.map(|v| v.len()))), f));
                            break;
                        }
                    };
                }
                let z = frame.as_ref().unwrap();
                st.sample(name, || format!("#{} file {} ({} bytes, expanded {}), capacity {}", i, d, f.len(), size, cap));
                ctx.begin(name, i, 60_000);
                let r = caught(|| s.decompress_zstd(z, cap));
                ctx.end();
                match r {
                    Err(p) => st.violation(ctx.viol(name, i, "panic", Some(p.loc.clone()), format!("decompress_zstd(capacity {}) panicked: {}", cap, p.msg), f)),
                    Ok(Ok(b)) => {
                        if cap < size {
                            st.violation(ctx.viol(name, i, "ok-below-capacity", None,
                                format!("capacity {} < expanded size {} but decompress_zstd returned Ok({} bytes)", cap, size, b.len()), f));
                        } else if b != *f {
                            st.violation(ctx.viol(name, i, "wrong-data", None, format!("capacity {}: returned {} bytes that differ from the file", cap, b.len()), f));
                        } else {
                            st.outcome(name, "ok-at-or-above-size");
                        }
                    }
                    Ok(Err(e)) => {
                        if cap >= size {
                            st.violation(ctx.viol(name, i, "err-with-sufficient-capacity", None,
                                format!("capacity {} >= expanded size {} but Err: {}", cap, size, first_line(&e.msg)), f));
                        } else {
                            st.outcome(name, "err-below-size");
                        }
                    }
                }
            }
        }
        let e = st.eng(name);
        e.bound = format!("{} files; every capacity 0..=size+16 for files <= {} bytes, a 10-value capacity menu around the expanded size otherwise", files.len(), if ctx.quick() { 400 } else { 4096 });
        e.exhaustive = true;
    }
    // non-frames
    let name2 = "NonFrames";
    if ctx.engine_on(name2) {
        let mut idx = 0u64;
        let files = file_menu(true);
        // inputs are described, not stored: (frame index or usize::MAX, kind) -> bytes
        enum In {
            Raw(Vec<u8>),
            Prefix(usize, usize),
            Subst(usize, usize, u8),
        }
        let mut frames: Vec<Vec<u8>> = Vec::new();
        let mut descr: Vec<In> = Vec::new();
        // all byte strings of length <= 2
        descr.push(In::Raw(vec![]));
        for a in 0..=255u8 {
            descr.push(In::Raw(vec![a]));
        }
        for a in 0..=255u8 {
            for b in 0..=255u8 {
                descr.push(In::Raw(vec![a, b]));
            }
        }
        // every proper prefix of some valid frames; every single-byte substitution in their first 18 bytes
        for (_, f) in files.iter().step_by(if ctx.quick() { 5 } else { 1 }) {
            if let Ok(Ok(z)) = caught(|| s.compress_zstd(f)) {
                let fi = frames.len();
                // frames above 4 KiB contribute their first and last 64 prefixes and every 97th in between
                for k in (0..z.len()).filter(|k| z.len() <= 4096 || *k < 64 || *k + 64 >= z.len() || k % 97 == 0) {
                    descr.push(In::Prefix(fi, k));
                }
                for k in 0..z.len().min(18) {
                    for v in 0..=255u8 {
                        if v != z[k] {
                            descr.push(In::Subst(fi, k, v));
                        }
                    }
                }
                frames.push(z);
            }
        }
        let materialise = |d: &In| -> Vec<u8> {
            match d {
                In::Raw(v) => v.clone(),
                In::Prefix(fi, k) => frames[*fi][..*k].to_vec(),
                In::Subst(fi, k, v) => {
                    let mut m = frames[*fi].clone();
                    m[*k] = *v;
                    m
                }
            }
        };
        for d in &descr {
            let i = idx;
            idx += 1;
            count(ctx, name2, st, i, !matches!(d, In::Raw(v) if v.is_empty()));
            if !ctx.take(name2, i) {
                continue;
            }
            let inp = &materialise(d);
            // "not a zstd frame" is defined by zstd's own decoder (through the reference build's
            // copy of the zstd crate: decompress of the reference with a large capacity fails at the zstd layer)
            // (libzstd decodes the empty input as "zero frames"; a byte string without a magic number is not a frame)
            let is_frame = inp.len() >= 4 && zstd_accepts(inp);
            ctx.begin(name2, i, 20_000);
            let r = caught(|| s.decompress_zstd(inp, 1 << 20));
            ctx.end();
            match r {
                Err(p) => {
                    if is_frame {
                        // a valid zstd frame that carries a damaged container: outside the property
                        st.outcome(name2, "valid-frame-not-judged");
                    } else {
                        st.violation(ctx.viol(name2, i, "panic", Some(p.loc.clone()), format!("decompress_zstd on a non-frame panicked: {}", p.msg), inp))
                    }
                }
                Ok(Ok(b)) => {
                    if !is_frame {
                        st.violation(ctx.viol(name2, i, "ok-on-non-frame", None, format!("input that zstd rejects gives Ok({} bytes)", b.len()), inp));
                    } else {
                        st.outcome(name2, "valid-frame-not-judged");
                    }
                }
                Ok(Err(_)) => st.outcome(name2, if is_frame { "valid-frame-not-judged" } else { "err-on-non-frame" }),
            }
        }
        let e = st.eng(name2);
        e.bound = "all byte strings of length <= 2; every proper prefix of valid frames (frames above 4 KiB: the first and last 64 and every 97th); every single-byte substitution in the first 18 bytes of each frame (judged only where zstd itself rejects the input)".into();
        e.exhaustive = true;
    }
    // large stream-free files whose expanded size lies around a power of two (frame / buffer size thresholds);
    // last, because freeing 64 MiB blocks raises glibc's mmap threshold and makes the many 1 MiB calloc calls of
    // the other engines several times slower
    let name3 = "E14zbig";
    if ctx.engine_on(name3) {
        let ks: Vec<u32> = if ctx.quick() { vec![16, 22, 26] } else { (16..=27).collect() };
        let kinds: &[usize] = if ctx.quick() { &[0] } else { &[0, 1] };
        let mut idx = 0u64;
        for &k in &ks {
            for &kind in kinds {
                for n in (1usize << k) - 8..=(1usize << k) + 1 {
                    let i = idx;
                    idx += 1;
                    count(ctx, name3, st, i, true);
                    if !ctx.take(name3, i) {
                        continue;
                    }
                    let f: Vec<u8> = if kind == 0 { vec![0u8; n] } else { b"record 0001: the quick brown fox jumps over;\n".iter().cycle().take(n).cloned().collect() };
                    st.sample(name3, || format!("#{} {} bytes of {}", i, n, if kind == 0 { "zeros" } else { "one repeated 45-byte record" }));
                    ctx.begin(name3, i, 600_000);
                    let size = match caught(|| s.expand(&f)) {
                        Ok(Ok(e)) => e.len(),
                        _ => {
                            ctx.end();
                            st.outcome(name3, "expand-fails(C01)");
                            continue;
                        }
                    };
                    let z = match caught(|| s.compress_zstd(&f)) {
                        Ok(Ok(z)) => z,
                        other => {
                            ctx.end();
                            st.violation(ctx.viol(name3, i, "compress-zstd-fails", None, format!("{} bytes: {:?}", n, other.map(|r| r.map(|v| v.len()))), &[]));
                            continue;
                        }
                    };
                    for cap in [size - 1, size, size + 1] {
                        let r = caught(|| s.decompress_zstd(&z, cap));
                        match r {
                            Err(p) => st.violation(ctx.viol(name3, i, "panic", Some(p.loc.clone()), format!("{} byte file, decompress_zstd(capacity {}) panicked: {}", n, cap, p.msg), &[])),
                            Ok(Ok(b)) => {
                                if cap < size {
                                    st.violation(ctx.viol(name3, i, "ok-below-capacity", None, format!("{} byte file: capacity {} < expanded size {} but Ok({} bytes)", n, cap, size, b.len()), &[]));
                                } else if b != f {
                                    st.violation(ctx.viol(name3, i, "wrong-data", None, format!("{} byte file, capacity {}: returned {} bytes that differ from the file", n, cap, b.len()), &[]));
                                } else {
                                    st.outcome(name3, "ok-at-or-above-size");
                                }
                            }
                            Ok(Err(e)) => {
                                if cap >= size {
                                    st.violation(ctx.viol(name3, i, "err-with-sufficient-capacity", None,
                                        format!("{} byte file: capacity {} >= expanded size {} but Err: {}", n, cap, size, first_line(&e.msg)), &[]));
                                } else {
                                    st.outcome(name3, "err-below-size");
                                }
                            }
                        }
                    }
                    ctx.end();
                }
            }
        }
        let e = st.eng(name3);
        e.bound = format!("stream-free files of 2^k - 8 ..= 2^k + 1 bytes for k in {:?} ({}), capacities size - 1, size, size + 1", ks, if ctx.quick() { "zeros" } else { "zeros; one repeated record" });
        e.exhaustive = true;
    }
}

/// does libzstd (called directly) decode this input as a complete frame sequence?
pub fn zstd_accepts(data: &[u8]) -> bool {
    extern "C" {
        fn ZSTD_decompress(dst: *mut u8, cap: usize, src: *const u8, n: usize) -> usize;
        fn ZSTD_isError(code: usize) -> u32;
    }
    let mut out = vec![0u8; 4 << 20];
    unsafe {
        let r = ZSTD_decompress(out.as_mut_ptr(), out.len(), data.as_ptr(), data.len());
        ZSTD_isError(r) == 0
    }
}

// ---------------------------------------------------------------------------------------------
// C12

struct Guarded {
    buf: Vec<u8>,
    off: usize,
    cap: usize,
}

const GUARD: usize = 4096;

fn canary(addr: usize) -> u8 {
    (addr.wrapping_mul(0x9E37_79B1) >> 11) as u8 | 1
}

impl Guarded {
    fn new(cap: usize) -> Guarded {
        let mut buf = vec![0u8; cap + 2 * GUARD];
        let base = buf.as_ptr() as usize;
        for (i, b) in buf.iter_mut().enumerate() {
            *b = canary(base + i);
        }
        Guarded { buf, off: GUARD, cap }
    }
    fn ptr(&mut self) -> *mut u8 {
        unsafe { self.buf.as_mut_ptr().add(self.off) }
    }
    fn out(&self, n: usize) -> &[u8] {
        &self.buf[self.off..self.off + n]
    }
    fn intact(&self) -> bool {
        let base = self.buf.as_ptr() as usize;
        (0..GUARD).all(|i| self.buf[i] == canary(base + i))
            && (self.off + self.cap..self.buf.len()).all(|i| self.buf[i] == canary(base + i))
    }
}

pub fn run_c12(ctx: &Ctx, st: &mut Local) {
    let name = "E14cabi";
    if !ctx.engine_on(name) {
        return;
    }
    let s = ctx.cur;
    let mut files = file_menu(ctx.quick());
    files.retain(|(_, f)| f.len() <= if ctx.quick() { 1300 } else { 4096 });
    // non-container inputs
    for n in [0usize, 1, 2, 3, 17, 256] {
        files.push((format!("noise{}", n), text_family(4, n)));
    }
    let mut idx = 0u64;
    for (d, f) in &files {
        let size = match caught(|| s.expand(f)) {
            Ok(Ok(e)) => e.len(),
            _ => continue,
        };
        let bound = comp::zstd_compress_bound(size);
        // --- compress: every output capacity 0..=bound+16
        let mut needed: Option<(usize, Vec<u8>)> = None;
        {
            let mut g = Guarded::new(bound + 64);
            let mut rs: u64 = u64::MAX;
            let rc = unsafe { s.c_compress(f.as_ptr(), f.len() as u64, g.ptr(), (bound + 64) as u64, &mut rs) };
            if rc == 0 && (rs as usize) <= bound + 64 {
                needed = Some((rs as usize, g.out(rs as usize).to_vec()));
            }
        }
        let step = if ctx.quick() && bound > 600 { 7 } else { 1 };
        for cap in (0..=bound + 16).filter(|c| c % step == 0 || needed.as_ref().map_or(false, |n| (*c as i64 - n.0 as i64).abs() <= 12) || *c >= bound.saturating_sub(2)) {
            let i = idx;
            idx += 1;
            count(ctx, name, st, i, true);
            if !ctx.take(name, i) {
                continue;
            }
            st.sample(name, || format!("#{} compress {} ({} bytes, expanded {}, bound {}) capacity {}", i, d, f.len(), size, bound, cap));
            let input_copy = f.clone();
            let mut g = Guarded::new(cap);
            let mut rs: u64 = 0xdead_beef_dead_beef;
            ctx.begin(name, i, 60_000);
            let rc = unsafe { s.c_compress(f.as_ptr(), f.len() as u64, g.ptr(), cap as u64, &mut rs) };
            ctx.end();
            if !g.intact() {
                st.violation(ctx.viol(name, i, "wrote-outside-buffer", None, format!("WrapperCompressZip capacity {}: guard bytes around the output buffer were modified", cap), f));
                continue;
            }
            if *f != input_copy {
                st.violation(ctx.viol(name, i, "input-modified", None, "input buffer modified".into(), f));
                continue;
            }
            if rc == 0 {
                if rs as usize > cap {
                    st.violation(ctx.viol(name, i, "result-size-beyond-capacity", None, format!("returned 0 with *result_size {} > capacity {}", rs, cap), f));
                    continue;
                }
                // must decompress back to the file
                let z = g.out(rs as usize).to_vec();
                match caught(|| s.decompress_zstd(&z, size + 16)) {
                    Ok(Ok(b)) if b == *f => st.outcome(name, "compress-ok"),
                    _ => st.violation(ctx.viol(name, i, "compress-output-wrong", None, format!("capacity {}: status 0 but the {} output bytes do not decompress to the file", cap, rs), f)),
                }
            } else if rc > 0 {
                st.violation(ctx.viol(name, i, "positive-status", None, format!("status {}", rc), f));
            } else {
                if cap >= bound {
                    st.violation(ctx.viol(name, i, "compress-fails-with-ample-buffer", None, format!("capacity {} >= ZSTD_compressBound({}) = {} but status {}", cap, size, bound, rc), f));
                } else {
                    st.outcome(name, if needed.as_ref().map_or(true, |n| cap < n.0) { "compress-err-undersized" } else { "compress-err-headroom" });
                }
            }
            if let Some((n, _)) = &needed {
                if rc == 0 && cap < *n {
                    st.violation(ctx.viol(name, i, "ok-with-undersized-buffer", None, format!("capacity {} < needed {} but status 0", cap, n), f));
                }
            }
        }
        // --- decompress: every capacity 0..=|F|+16, and every proper prefix of the frame
        let (_, frame) = match needed {
            Some(x) => x,
            None => {
                let i = idx;
                idx += 1;
                if ctx.take(name, i) {
                    st.violation(ctx.viol(name, i, "compress-fails-with-ample-buffer", None, "no frame produced with capacity bound+64".into(), f));
                }
                continue;
            }
        };
        let stepd = if ctx.quick() && f.len() > 600 { 5 } else { 1 };
        for cap in (0..=f.len() + 16).filter(|c| c % stepd == 0 || (*c as i64 - f.len() as i64).abs() <= 12) {
            let i = idx;
            idx += 1;
            count(ctx, name, st, i, true);
            if !ctx.take(name, i) {
                continue;
            }
            let frame_copy = frame.clone();
            let mut g = Guarded::new(cap);
            let mut rs: u64 = 0xdead_beef_dead_beef;
            ctx.begin(name, i, 60_000);
            let rc = unsafe { s.c_decompress(frame.as_ptr(), frame.len() as u64, g.ptr(), cap as u64, &mut rs) };
            ctx.end();
            if !g.intact() {
                st.violation(ctx.viol(name, i, "wrote-outside-buffer", None, format!("WrapperDecompressZip capacity {}: guard bytes modified", cap), f));
                continue;
            }
            if frame != frame_copy {
                st.violation(ctx.viol(name, i, "input-modified", None, "input buffer modified".into(), f));
                continue;
            }
            if rc == 0 {
                if rs as usize > cap || cap < f.len() {
                    st.violation(ctx.viol(name, i, "ok-with-undersized-buffer", None, format!("capacity {} (file {} bytes): status 0, *result_size {}", cap, f.len(), rs), f));
                } else if g.out(rs as usize) != &f[..] {
                    st.violation(ctx.viol(name, i, "decompress-output-wrong", None, format!("capacity {}: status 0 but output differs from the file", cap), f));
                } else {
                    st.outcome(name, "decompress-ok");
                }
            } else if rc > 0 {
                st.violation(ctx.viol(name, i, "positive-status", None, format!("status {}", rc), f));
            } else if cap >= f.len() {
                st.violation(ctx.viol(name, i, "decompress-fails-with-sufficient-buffer", None, format!("capacity {} >= {} but status {}", cap, f.len(), rc), f));
            } else {
                st.outcome(name, "decompress-err-undersized");
            }
        }
        for k in (0..frame.len()).filter(|k| !ctx.quick() || frame.len() < 400 || k % 3 == 0) {
            let i = idx;
            idx += 1;
            count(ctx, name, st, i, true);
            if !ctx.take(name, i) {
                continue;
            }
            let mut g = Guarded::new(f.len() + 16);
            let mut rs: u64 = 0;
            ctx.begin(name, i, 60_000);
            let rc = unsafe { s.c_decompress(frame.as_ptr(), k as u64, g.ptr(), (f.len() + 16) as u64, &mut rs) };
            ctx.end();
            if !g.intact() {
                st.violation(ctx.viol(name, i, "wrote-outside-buffer", None, format!("WrapperDecompressZip on a {}-byte prefix of the frame: guard bytes modified", k), f));
            } else if rc == 0 && !(rs as usize <= f.len() + 16) {
                st.violation(ctx.viol(name, i, "result-size-beyond-capacity", None, format!("prefix {}: status 0, result_size {}", k, rs), f));
            } else if rc == 0 {
                // a proper prefix of a single frame is not a complete frame: data must not be reported as valid unless it is the file
                if g.out(rs as usize) != &f[..] {
                    st.violation(ctx.viol(name, i, "truncated-frame-accepted", None, format!("prefix {} of the frame gives status 0 with {} bytes that are not the file", k, rs), f));
                } else {
                    st.outcome(name, "prefix-decodes-to-file");
                }
            } else if rc > 0 {
                st.violation(ctx.viol(name, i, "positive-status", None, format!("status {}", rc), f));
            } else {
                st.outcome(name, "prefix-rejected");
            }
        }
    }
    let e = st.eng(name);
    e.bound = format!(
        "{} files (<= {} bytes) + 6 non-container inputs: WrapperCompressZip at every output capacity 0..=ZSTD_compressBound+16{}; WrapperDecompressZip at every capacity 0..=|F|+16{} and on every proper prefix of the frame; 4 KiB address-dependent canaries on both sides of the output buffer",
        files.len() - 6,
        if ctx.quick() { 1300 } else { 4096 },
        if ctx.quick() { " (stride 7 away from the needed size and the bound for buffers > 600)" } else { "" },
        if ctx.quick() { " (stride 5 away from |F| for files > 600)" } else { "" }
    );
    e.exhaustive = true;
}

/// call histories through the C ABI on one thread: every ordered pair of files, with a failing call
/// (undersized buffer) in between; each result must equal the result of the same call alone
pub fn run_c12_hist(ctx: &Ctx, st: &mut Local) {
    let name = "E14hist";
    if !ctx.engine_on(name) {
        return;
    }
    let s = ctx.cur;
    let mut files = file_menu(true);
    files.retain(|(_, f)| f.len() <= 2400);
    files.sort_by_key(|(_, f)| f.len());
    let n = files.len();
    let pick: Vec<usize> = if ctx.quick() { (0..n).step_by((n / 7).max(1)).collect() } else { (0..n).step_by((n / 14).max(1)).collect() };
    let frames: Vec<Option<Vec<u8>>> = pick.iter().map(|&i| caught(|| s.compress_zstd(&files[i].1)).ok().and_then(|r| r.ok())).collect();
    let dec = |frame: &[u8], cap: usize| -> (i32, Vec<u8>) {
        let mut g = Guarded::new(cap);
        let mut rs: u64 = 0;
        let rc = unsafe { s.c_decompress(frame.as_ptr(), frame.len() as u64, g.ptr(), cap as u64, &mut rs) };
        (rc, if rc == 0 && rs as usize <= cap { g.out(rs as usize).to_vec() } else { vec![] })
    };
    let cmp = |f: &[u8]| -> (i32, usize) {
        let cap = comp::zstd_compress_bound(f.len() * 2 + 4096);
        let mut g = Guarded::new(cap);
        let mut rs: u64 = 0;
        let rc = unsafe { s.c_compress(f.as_ptr(), f.len() as u64, g.ptr(), cap as u64, &mut rs) };
        (rc, rs as usize)
    };
    let mut idx = 0u64;
    for (ai, &a) in pick.iter().enumerate() {
        for (bi, &b) in pick.iter().enumerate() {
            for mid in 0..3 {
                let i = idx;
                idx += 1;
                count(ctx, name, st, i, true);
                if !ctx.take(name, i) {
                    continue;
                }
                let (fa, fb) = (&files[a].1, &files[b].1);
                let (za, zb) = match (&frames[ai], &frames[bi]) {
                    (Some(x), Some(y)) => (x, y),
                    _ => continue,
                };
                st.sample(name, || format!("#{} decompress({}), {}, decompress({})", i, files[a].0, ["nothing", "undersized decompress", "compress"][mid], files[b].0));
                ctx.begin(name, i, 60_000);
                // a fresh OS thread per history: thread-local state starts empty, so the case does
                // not depend on what this worker executed before (and replays alone)
                let (r1, r2) = std::thread::scope(|sc| {
                    sc.spawn(|| {
                        let r1 = dec(za, fa.len() + 32);
                        match mid {
                            1 => {
                                let _ = dec(zb, fb.len() / 2);
                            }
                            2 => {
                                let _ = cmp(fa);
                            }
                            _ => {}
                        }
                        let r2 = dec(zb, fb.len() + 32);
                        (r1, r2)
                    })
                    .join()
                    .unwrap_or(((-99, vec![]), (-99, vec![])))
                });
                ctx.end();
                if r1.0 != 0 || r1.1 != *fa {
                    st.violation(ctx.viol(name, i, "first-call-wrong", None, format!("WrapperDecompressZip({}) status {} ", files[a].0, r1.0), fa));
                } else if r2.0 != 0 || r2.1 != *fb {
                    st.violation(ctx.viol(name, i, "history-dependent-result", None,
                        format!("WrapperDecompressZip({}) after WrapperDecompressZip({}) [{}] returns status {} / {} bytes instead of the {} byte file", files[b].0, files[a].0,
                            ["", "and an undersized call", "and a compress call"][mid], r2.0, r2.1.len(), fb.len()), fb));
                } else {
                    st.outcome(name, "history-independent");
                }
            }
        }
    }
    let e = st.eng(name);
    e.bound = format!("every ordered pair of {} files (sorted by size) through WrapperDecompressZip on one thread, with nothing / a failing undersized call / a compress call in between", pick.len());
    e.exhaustive = true;
}

/// libzstd's one-shot encoder, called directly (the harness's own frames around damaged containers)
pub fn zstd_frame(data: &[u8]) -> Vec<u8> {
    extern "C" {
        fn ZSTD_compress(dst: *mut u8, cap: usize, src: *const u8, n: usize, level: i32) -> usize;
        fn ZSTD_isError(code: usize) -> u32;
    }
    let mut out = vec![0u8; comp::zstd_compress_bound(data.len())];
    unsafe {
        let r = ZSTD_compress(out.as_mut_ptr(), out.len(), data.as_ptr(), data.len(), 3);
        assert!(ZSTD_isError(r) == 0, "HARNESS-BUG: ZSTD_compress failed");
        out.truncate(r);
    }
    out
}

/// valid zstd frames that carry a damaged (tiny or truncated) intermediate form: whatever happens inside, WrapperDecompressZip has to
/// come back with a status (internal panics are its -2), stay inside the caller's buffer and never take the process down
pub fn run_c12_damaged(ctx: &Ctx, st: &mut Local) {
    let name = "E14dmg";
    if !ctx.engine_on(name) {
        return;
    }
    let s = ctx.cur;
    let mut inputs: Vec<Vec<u8>> = Vec::new();
    // tiny intermediate forms: every string of length <= 2, and version byte 01 followed by <= 3 bytes of a small alphabet
    inputs.push(vec![]);
    for a in 0..=255u8 {
        inputs.push(vec![a]);
    }
    for a in [0u8, 1, 2, 3, 0xff] {
        for b in 0..=255u8 {
            inputs.push(vec![a, b]);
        }
    }
    let al = [0u8, 1, 2, 3, 4, 0x7f, 0x80, 0xff];
    for &a in &al {
        for &b in &al {
            inputs.push(vec![1, a, b]);
            for &c in &al {
                inputs.push(vec![1, a, b, c]);
            }
        }
    }
    // containers of real files: every prefix, and every substitution from the alphabet in the first 32 bytes
    let mut files = file_menu(true);
    files.retain(|(_, f)| f.len() <= 2400 && !f.is_empty());
    files.sort_by_key(|(_, f)| f.len());
    let n = files.len();
    let step = if ctx.quick() { (n / 5).max(1) } else { (n / 16).max(1) };
    let mut nfiles = 0;
    for (_, f) in files.iter().step_by(step) {
        if let Ok(Ok(e)) = caught(|| s.expand(f)) {
            nfiles += 1;
            let pstep = if ctx.quick() && e.len() > 300 { 7 } else { 1 };
            for k in (0..e.len()).step_by(pstep) {
                inputs.push(e[..k].to_vec());
            }
            // (substitutions inside a container are left out on purpose: reconstruction from garbled corrections can
            // run for an unbounded time with unbounded memory, which no property rules out and the harness cannot host)
        }
    }
    let mut idx = 0u64;
    for inp in &inputs {
        let i = idx;
        idx += 1;
        count(ctx, name, st, i, true);
        if !ctx.take(name, i) {
            continue;
        }
        let z = zstd_frame(inp);
        if std::env::var("PFV_DEBUG").is_ok() {
            eprintln!("E14dmg #{} intermediate form ({} bytes) {}", i, inp.len(), inp.iter().take(64).map(|b| format!("{:02x}", b)).collect::<String>());
        }
        st.sample(name, || format!("#{} intermediate form {} in a valid zstd frame", i, hex_short(inp)));
        ctx.begin(name, i, 20_000);
        let cap = 1usize << 16;
        let mut g = Guarded::new(cap);
        let mut rs: u64 = 0;
        let rc = unsafe { s.c_decompress(z.as_ptr(), z.len() as u64, g.ptr(), cap as u64, &mut rs) };
        ctx.end();
        if !g.intact() {
            st.violation(ctx.viol(name, i, "write-outside-buffer", None, format!("WrapperDecompressZip wrote outside the {} byte buffer (status {})", cap, rc), inp));
        } else if rc == 0 && rs as usize > cap {
            st.violation(ctx.viol(name, i, "result-size-beyond-buffer", None, format!("status 0 with result_size {} > {}", rs, cap), inp));
        } else if rc > 0 {
            st.violation(ctx.viol(name, i, "positive-status", None, format!("status {}", rc), inp));
        } else {
            st.outcome(name, if rc == 0 { "status-0" } else if rc == -2 { "status--2(internal panic mapped)" } else { "negative-status" });
        }
    }
    let e = st.eng(name);
    e.bound = format!("{} damaged intermediate forms inside valid zstd frames: all strings of length <= 2 (second byte free for 5 first bytes), 01 + <= 3 bytes over an 8-letter alphabet, every {}prefix of the containers of {} files", inputs.len(), if ctx.quick() { "(7th, for containers > 300 bytes) " } else { "" }, nfiles);
    e.exhaustive = true;
}

/// the fixed list of wrapper calls used by E14env; returns "status,result_size" per call (nothing is printed)
fn cabienv_calls(s: &dyn Subject) -> Vec<String> {
    let files = file_menu(true);
    let mut small: Vec<&(String, Vec<u8>)> = files.iter().filter(|(_, f)| !f.is_empty() && f.len() <= 2400).collect();
    small.sort_by_key(|(_, f)| f.len());
    let pick: Vec<&(String, Vec<u8>)> = small.iter().step_by((small.len() / 6).max(1)).cloned().collect();
    let mut res = Vec::new();
    for (_, f) in pick {
        let cap = comp::zstd_compress_bound(f.len() * 2 + 4096);
        let mut out = vec![0u8; cap];
        let mut rs: u64 = 0;
        // undersized compress, sufficient compress, decompress of a non-frame, undersized decompress, sufficient decompress
        let rc = unsafe { s.c_compress(f.as_ptr(), f.len() as u64, out.as_mut_ptr(), 8, &mut rs) };
        res.push(format!("{}", rc.min(0).max(-1)));
        let rc = unsafe { s.c_compress(f.as_ptr(), f.len() as u64, out.as_mut_ptr(), cap as u64, &mut rs) };
        res.push(format!("{},{}", rc, rs));
        let z = out[..(rs as usize).min(cap)].to_vec();
        let mut back = vec![0u8; f.len() + 64];
        let mut rs2: u64 = 0;
        let rc = unsafe { s.c_decompress(f.as_ptr(), f.len() as u64, back.as_mut_ptr(), back.len() as u64, &mut rs2) };
        res.push(format!("{}", rc.min(0).max(-1)));
        let rc = unsafe { s.c_decompress(z.as_ptr(), z.len() as u64, back.as_mut_ptr(), (f.len() / 2) as u64, &mut rs2) };
        res.push(format!("{}", rc.min(0).max(-1)));
        let rc = unsafe { s.c_decompress(z.as_ptr(), z.len() as u64, back.as_mut_ptr(), back.len() as u64, &mut rs2) };
        res.push(format!("{},{},{}", rc, rs2, back[..(rs2 as usize).min(back.len())] == f[..]));
    }
    res
}

/// child side of E14env: runs the calls and writes the statuses to a file (stdout / stderr may be unusable)
pub fn cabienv_main(s: &dyn Subject, out_path: &str) {
    let res = cabienv_calls(s);
    let _ = std::fs::write(out_path, res.join("\n"));
}

/// C12 under a hostile process environment: the same failing and succeeding wrapper calls in child processes whose
/// stderr / stdout cannot be written to (full device, closed pipe, closed descriptor). The statuses must be the same
/// as in this process and the child must end normally.
pub fn run_c12_env(ctx: &Ctx, st: &mut Local) {
    let name = "E14env";
    if !ctx.engine_on(name) {
        return;
    }
    let s = ctx.cur;
    let variants: [(&str, &str); 7] = [("null", "null"), ("full", "null"), ("null", "full"), ("full", "full"), ("epipe", "null"), ("null", "epipe"), ("closed", "closed")];
    let mut expected: Option<Vec<String>> = None;
    for (vi, (err, out)) in variants.iter().enumerate() {
        let i = vi as u64;
        count(ctx, name, st, i, vi > 0);
        if !ctx.take(name, i) {
            continue;
        }
        let exp = expected.get_or_insert_with(|| cabienv_calls(s)).clone();
        st.sample(name, || format!("#{} child process with stderr={} stdout={}: {} wrapper calls", i, err, out, exp.len()));
        ctx.begin(name, i, 120_000);
        let path = format!("/verif/target/run/c12_env_{}_{}_{}.txt", std::process::id(), ctx.thread, vi);
        let _ = std::fs::create_dir_all("/verif/target/run");
        let _ = std::fs::remove_file(&path);
        let exe = std::env::current_exe().unwrap();
        let mut cmd = std::process::Command::new(&exe);
        cmd.arg("cabienv").arg(&path).stdin(std::process::Stdio::null());
        let mut keep: Vec<std::process::ChildStdout> = Vec::new();
        let mk = |what: &str, keep: &mut Vec<std::process::ChildStdout>| -> std::process::Stdio {
            match what {
                "full" => std::fs::OpenOptions::new().write(true).open("/dev/full").map(std::process::Stdio::from).unwrap_or(std::process::Stdio::null()),
                "epipe" => {
                    // a pipe whose read end is closed before the child writes: `true` exits at once and its stdin closes
                    match std::process::Command::new("true").stdin(std::process::Stdio::piped()).spawn() {
                        Ok(mut c) => {
                            let w = c.stdin.take().unwrap();
                            let _ = c.wait();
                            let _ = keep;
                            std::process::Stdio::from(w)
                        }
                        Err(_) => std::process::Stdio::null(),
                    }
                }
                _ => std::process::Stdio::null(),
            }
        };
        if *err != "closed" {
            cmd.stderr(mk(err, &mut keep));
            cmd.stdout(mk(out, &mut keep));
        } else {
            use std::os::unix::process::CommandExt;
            unsafe {
                cmd.pre_exec(|| {
                    libc::close(1);
                    libc::close(2);
                    Ok(())
                });
            }
        }
        let status = cmd.status();
        ctx.end();
        let got = std::fs::read_to_string(&path).unwrap_or_default();
        let _ = std::fs::remove_file(&path);
        match status {
            Err(e) => crate::streams::harness_bug(&format!("cannot spawn the E14env child: {}", e)),
            Ok(stt) => {
                let got: Vec<String> = got.lines().map(|l| l.to_string()).collect();
                if !stt.success() {
                    st.violation(ctx.viol(name, i, "process-dies-under-unwritable-stderr", None,
                        format!("child with stderr={} stdout={} ended with {:?} after {} of {} wrapper calls were recorded", err, out, stt, got.len(), exp.len()), &[]));
                } else if got != exp {
                    let k = got.iter().zip(exp.iter()).position(|(a, b)| a != b).unwrap_or(got.len().min(exp.len()));
                    st.violation(ctx.viol(name, i, "statuses-depend-on-process-environment", None,
                        format!("child with stderr={} stdout={}: call #{} gives {:?}, in this process {:?}", err, out, k, got.get(k), exp.get(k)), &[]));
                } else {
                    st.outcome(name, "same-statuses-child-alive");
                }
            }
        }
    }
    let e = st.eng(name);
    e.bound = "7 process environments (stderr / stdout to /dev/null, /dev/full, a pipe without reader, closed descriptors) x 30 wrapper calls (undersized and sufficient compress, non-frame / undersized / sufficient decompress of 6 files): statuses equal to the in-process ones, child exits normally".into();
    e.exhaustive = true;
}

/// input and output buffer of one call carved out of one allocation, directly adjacent (either order) or one byte apart
pub fn run_c12_adjacent(ctx: &Ctx, st: &mut Local) {
    let name = "E14adj";
    if !ctx.engine_on(name) {
        return;
    }
    let s = ctx.cur;
    let mut files = file_menu(true);
    files.retain(|(_, f)| f.len() <= 2400 && !f.is_empty());
    files.sort_by_key(|(_, f)| f.len());
    let n = files.len();
    let pick: Vec<usize> = if ctx.quick() { (0..n).step_by((n / 7).max(1)).collect() } else { (0..n).collect() };
    let mut idx = 0u64;
    for &a in &pick {
        for in_first in [true, false] {
            for gap in [0usize, 1] {
                let i = idx;
                idx += 1;
                count(ctx, name, st, i, true);
                if !ctx.take(name, i) {
                    continue;
                }
                let f = &files[a].1;
                st.sample(name, || format!("#{} {}: {} in one allocation, {} byte(s) apart", i, files[a].0, if in_first { "input then output" } else { "output then input" }, gap));
                ctx.begin(name, i, 60_000);
                // one arena; the two regions never overlap
                let round = |src: &[u8], cap: usize, compress: bool| -> (i32, Vec<u8>) {
                    let mut arena = vec![0xc3u8; src.len() + gap + cap];
                    let (ioff, ooff) = if in_first { (0, src.len() + gap) } else { (cap + gap, 0) };
                    arena[ioff..ioff + src.len()].copy_from_slice(src);
                    let base = arena.as_mut_ptr();
                    let mut rs: u64 = 0;
                    let rc = unsafe {
                        if compress {
                            s.c_compress(base.add(ioff) as *const u8, src.len() as u64, base.add(ooff), cap as u64, &mut rs)
                        } else {
                            s.c_decompress(base.add(ioff) as *const u8, src.len() as u64, base.add(ooff), cap as u64, &mut rs)
                        }
                    };
                    let input_intact = arena[ioff..ioff + src.len()] == src[..];
                    if rc == 0 && rs as usize <= cap && input_intact {
                        (rc, arena[ooff..ooff + rs as usize].to_vec())
                    } else {
                        (if rc == 0 { -77 } else { rc }, vec![])
                    }
                };
                let cap = comp::zstd_compress_bound(f.len() * 2 + 4096);
                let (rc1, z) = round(f, cap, true);
                let (rc2, back) = if rc1 == 0 { round(&z, f.len() + 16, false) } else { (0, vec![]) };
                ctx.end();
                if rc1 != 0 {
                    st.violation(ctx.viol(name, i, "compress-fails-with-adjacent-buffers", None, format!("WrapperCompressZip returns {} (-77: result_size or input damaged) with a sufficient output buffer that lies next to the input", rc1), f));
                } else if rc2 != 0 || back != *f {
                    st.violation(ctx.viol(name, i, "decompress-fails-with-adjacent-buffers", None, format!("WrapperDecompressZip returns {} / {} bytes with a sufficient output buffer that lies next to the input", rc2, back.len()), f));
                } else {
                    st.outcome(name, "adjacent-buffers-ok");
                }
            }
        }
    }
    let e = st.eng(name);
    e.bound = format!("{} files x {{input before output, output before input}} x gap {{0, 1}} bytes inside one allocation, compress then decompress", pick.len());
    e.exhaustive = true;
}

/// caller-owned buffers reused across calls: the same input address (and length) carrying a different file, after a
/// failed or a successful call
pub fn run_c12_buf(ctx: &Ctx, st: &mut Local) {
    let name = "E14buf";
    if !ctx.engine_on(name) {
        return;
    }
    let s = ctx.cur;
    let mut files = file_menu(true);
    files.retain(|(_, f)| f.len() <= 2400 && !f.is_empty());
    files.sort_by_key(|(_, f)| f.len());
    let n = files.len();
    let pick: Vec<usize> = if ctx.quick() { (0..n).step_by((n / 7).max(1)).collect() } else { (0..n).step_by((n / 14).max(1)).collect() };
    let mut idx = 0u64;
    for &a in &pick {
        for &b in &pick {
            for first_cap in 0..2 {
                for same_len in [true, false] {
                    let i = idx;
                    idx += 1;
                    count(ctx, name, st, i, true);
                    if !ctx.take(name, i) {
                        continue;
                    }
                    let fa = files[a].1.clone();
                    // the second file: B, cut or zero-padded to A's length when the length is to stay the same
                    let mut fb = files[b].1.clone();
                    if same_len {
                        fb.resize(fa.len(), 0);
                        if fb == fa {
                            let k = fb.len() / 2;
                            fb[k] ^= 0x20;
                        }
                    }
                    st.sample(name, || format!("#{} compress({}) into a {} buffer, then the same input buffer carries {} ({})", i, files[a].0,
                        if first_cap == 0 { "far too small" } else { "sufficient" }, files[b].0, if same_len { "same length" } else { "own length" }));
                    ctx.begin(name, i, 60_000);
                    let (fa2, fb2) = (fa.clone(), fb.clone());
                    let res = std::thread::scope(|sc| {
                        sc.spawn(move || {
                            let maxlen = fa2.len().max(fb2.len());
                            let mut inbuf = vec![0u8; maxlen];
                            let cap = comp::zstd_compress_bound(maxlen * 2 + 4096);
                            let mut out = Guarded::new(cap);
                            let mut rs: u64 = 0;
                            inbuf[..fa2.len()].copy_from_slice(&fa2);
                            let cap1 = if first_cap == 0 { 8 } else { cap };
                            let rc1 = unsafe { s.c_compress(inbuf.as_ptr(), fa2.len() as u64, out.ptr(), cap1 as u64, &mut rs) };
                            inbuf[..fb2.len()].copy_from_slice(&fb2);
                            let mut rs2: u64 = 0;
                            let rc2 = unsafe { s.c_compress(inbuf.as_ptr(), fb2.len() as u64, out.ptr(), cap as u64, &mut rs2) };
                            if rc2 != 0 || rs2 as usize > cap {
                                return (rc1, rc2, -1, vec![]);
                            }
                            let z = out.out(rs2 as usize).to_vec();
                            let mut back = Guarded::new(fb2.len() + 64);
                            let mut rs3: u64 = 0;
                            let rc3 = unsafe { s.c_decompress(z.as_ptr(), z.len() as u64, back.ptr(), (fb2.len() + 64) as u64, &mut rs3) };
                            (rc1, rc2, rc3, if rc3 == 0 && rs3 as usize <= fb2.len() + 64 { back.out(rs3 as usize).to_vec() } else { vec![] })
                        })
                        .join()
                        .unwrap_or((-99, -99, -99, vec![]))
                    });
                    ctx.end();
                    let (rc1, rc2, rc3, back) = res;
                    if first_cap == 0 && rc1 >= 0 {
                        st.violation(ctx.viol(name, i, "undersized-compress-not-negative", None, format!("WrapperCompressZip({}) into 8 bytes returns {}", files[a].0, rc1), &fa));
                    } else if rc2 != 0 {
                        st.violation(ctx.viol(name, i, "compress-fails-after-history", None, format!("second WrapperCompressZip returns {}", rc2), &fb));
                    } else if rc3 != 0 || back != fb {
                        st.violation(ctx.viol(name, i, "buffer-reuse-returns-other-file", None,
                            format!("the input buffer was refilled with {} ({} bytes) after a {} call on {}; compress + decompress returns status {} and {} bytes that {} the refilled content",
                                files[b].0, fb.len(), if first_cap == 0 { "failed" } else { "successful" }, files[a].0, rc3, back.len(), if back == fa { "equal the PREVIOUS content, not" } else { "differ from" }), &fb));
                    } else {
                        st.outcome(name, "buffer-reuse-ok");
                    }
                }
            }
        }
    }
    let e = st.eng(name);
    e.bound = format!("every ordered pair of {} files through WrapperCompressZip from ONE input buffer (same address; same or own length), the first call failing (8-byte output) or succeeding; result decompressed and compared", pick.len());
    e.exhaustive = true;
}

/// files whose expanded form approaches the 128 MiB bound of the intermediate form
pub fn run_c12_big(ctx: &Ctx, st: &mut Local) {
    let name = "E14big";
    if !ctx.engine_on(name) {
        return;
    }
    let s = ctx.cur;
    // expanded form of a stream-free file = 1 (version) + 1 (tag) + varint(len) + len
    let mib = 1usize << 20;
    let sizes: Vec<(usize, &str)> = vec![
        (70 * mib, "70 MiB"),
        (100 * mib, "100 MiB"),
        (128 * mib - 6, "expanded form exactly 128 MiB"),
        (128 * mib - 7, "expanded form 128 MiB - 1"),
    ];
    let mut idx = 0u64;
    // highly redundant files: the expanded form is thousands of times larger than the zstd frame
    let mut redundant: Vec<(String, Vec<u8>)> = vec![
        ("128 KiB of zeros".into(), vec![0u8; 131072]),
        ("1 MiB of zeros".into(), vec![0u8; 1 << 20]),
        ("3 MiB of one repeated 45-byte record".into(), b"record 0001: the quick brown fox jumps over;\n".iter().cycle().take(3 << 20).cloned().collect()),
    ];
    {
        let rec: Vec<u8> = b"<td class=\"blank\">&nbsp;</td>\n".iter().cycle().take(4 << 20).cloned().collect();
        if let Some(sd) = comp::zlib_deflate_raw(&rec, 6, 0, 15, 8) {
            redundant.push(("zlib stream of 4 MiB of one repeated record".into(), crate::wrap::zlib_wrap([0x78, 0x9c], &sd, &rec)));
        }
    }
    for (label, f) in &redundant {
        let i = idx;
        idx += 1;
        count(ctx, name, st, i, true);
        if !ctx.take(name, i) {
            continue;
        }
        let n = f.len();
        st.sample(name, || format!("#{} {} ({} bytes)", i, label, n));
        ctx.begin(name, i, 600_000);
        let bound = comp::zstd_compress_bound(5 * (1 << 20));
        let mut z = vec![0u8; bound];
        let mut rs: u64 = 0;
        let rc = unsafe { s.c_compress(f.as_ptr(), n as u64, z.as_mut_ptr(), bound as u64, &mut rs) };
        if rc != 0 || rs as usize > bound {
            ctx.end();
            st.violation(ctx.viol(name, i, "compress-fails-with-ample-buffer", None, format!("{}: WrapperCompressZip status {}", label, rc), &[]));
            continue;
        }
        z.truncate(rs as usize);
        let mut bad = None;
        for cap in [n, n + 64] {
            let mut out = vec![0u8; cap];
            let mut rs2: u64 = 0;
            let rc2 = unsafe { s.c_decompress(z.as_ptr(), z.len() as u64, out.as_mut_ptr(), cap as u64, &mut rs2) };
            if rc2 != 0 || rs2 as usize != n || out[..n] != f[..] {
                bad = Some((cap, rc2, rs2));
                break;
            }
        }
        ctx.end();
        match bad {
            Some((cap, rc2, rs2)) => st.violation(ctx.viol(name, i, "decompress-fails-with-sufficient-buffer", None,
                format!("{} (frame {} bytes): WrapperDecompressZip with capacity {} gives status {} / result_size {}", label, z.len(), cap, rc2, rs2), &[])),
            None => st.outcome(name, "redundant-file-round-trip"),
        }
    }
    for (n, label) in sizes {
        for prefix in [320 * 1024usize, 0] {
            let i = idx;
            idx += 1;
            count(ctx, name, st, i, true);
            if !ctx.take(name, i) {
                continue;
            }
            if ctx.quick() && prefix == 0 {
                continue;
            }
            // incompressible prefix (so that the zstd frame is larger than 256 KiB), then zeros
            let mut f = text_family(4, prefix);
            // make sure no signature look-alike starts a long analysis in the noise: harmless either way
            f.resize(n, 0);
            st.sample(name, || format!("#{} file of {} bytes ({}), noise prefix {}", i, n, label, prefix));
            ctx.begin(name, i, 600_000);
            let bound = comp::zstd_compress_bound(n + 16);
            let mut z = vec![0u8; bound];
            let mut rs: u64 = 0;
            let rc = unsafe { s.c_compress(f.as_ptr(), f.len() as u64, z.as_mut_ptr(), bound as u64, &mut rs) };
            if rc != 0 || rs as usize > bound {
                ctx.end();
                st.violation(ctx.viol(name, i, "compress-fails-with-ample-buffer", None, format!("{}: WrapperCompressZip status {} with capacity {}", label, rc, bound), &[]));
                continue;
            }
            z.truncate(rs as usize);
            let mut out = vec![0u8; n + 64];
            let mut rs2: u64 = 0;
            let rc2 = unsafe { s.c_decompress(z.as_ptr(), z.len() as u64, out.as_mut_ptr(), out.len() as u64, &mut rs2) };
            ctx.end();
            if rc2 != 0 {
                st.violation(ctx.viol(name, i, "decompress-fails-with-sufficient-buffer", None,
                    format!("{} (frame {} bytes): WrapperDecompressZip status {} although the expanded form is within 128 MiB", label, z.len(), rc2), &[]));
            } else if rs2 as usize != n || out[..n] != f[..] {
                st.violation(ctx.viol(name, i, "decompress-output-wrong", None, format!("{}: round trip returns {} bytes that differ from the file", label, rs2), &[]));
            } else {
                st.outcome(name, "large-file-round-trip");
            }
        }
    }
    let e = st.eng(name);
    e.bound = "stream-free files of 70 MiB, 100 MiB and with an expanded form of exactly 128 MiB and 128 MiB - 1, with a 320 KiB incompressible prefix (zstd frame > 256 KiB) and without (thorough), and four highly redundant files (expanded form thousands of times larger than the frame), through both C wrappers".into();
    e.exhaustive = true;
}

// ---------------------------------------------------------------------------------------------
// C13: I/O environment exploration

#[derive(Clone, Copy, Debug, PartialEq, Eq)]
pub enum Dev {
    /// answer call #n with at most k bytes (k >= 1)
    Short(usize, usize),
    /// answer call #n with an error of the given kind (one-shot)
    Fail(usize, u8),
}

pub struct ScriptRead<'a> {
    pub data: &'a [u8],
    pub pos: usize,
    pub calls: usize,
    pub devs: Vec<Dev>,
    pub max_per_call: usize,
    /// fail (one-shot) when the cursor is at this byte offset
    pub fail_at_offset: Option<(usize, u8)>,
    pub injected: Option<u8>,
    pub log: Vec<usize>,
}

/// the injected error object: kinds 0..=5 carry a short ASCII message; 6..=13 vary what the error *carries* (kind Other):
/// an empty message, a raw OS error (ENOSPC), no payload at all, a 70 KB message, and four messages of 4-byte
/// characters behind 0..=3 ASCII bytes (any byte position >= 4 lies inside a character for three of the four)
pub fn mk_err(k: u8, what: &str) -> std::io::Error {
    match k {
        6 => std::io::Error::new(std::io::ErrorKind::Other, ""),
        7 => std::io::Error::from_raw_os_error(28),
        8 => std::io::Error::from(std::io::ErrorKind::Other),
        9 => std::io::Error::new(std::io::ErrorKind::Other, "x".repeat(70_000)),
        10..=13 => std::io::Error::new(std::io::ErrorKind::Other, format!("{}{}", "abc".get(..(k - 10) as usize).unwrap_or(""), "\u{1D11E}".repeat(300))),
        _ => std::io::Error::new(errkind(k), what.to_string()),
    }
}

pub fn errkind(k: u8) -> std::io::ErrorKind {
    match k {
        0 | 6..=13 => std::io::ErrorKind::Other,
        1 => std::io::ErrorKind::UnexpectedEof,
        2 => std::io::ErrorKind::Interrupted,
        3 => std::io::ErrorKind::WriteZero,
        4 => std::io::ErrorKind::WouldBlock,
        _ => std::io::ErrorKind::TimedOut,
    }
}

impl<'a> Read for ScriptRead<'a> {
    fn read(&mut self, buf: &mut [u8]) -> std::io::Result<usize> {
        let call = self.calls;
        self.calls += 1;
        if let Some((off, k)) = self.fail_at_offset {
            if self.pos >= off {
                self.fail_at_offset = None;
                self.injected = Some(k);
                return Err(mk_err(k, "injected read error"));
            }
        }
        let mut limit = self.max_per_call;
        for d in &self.devs {
            match *d {
                Dev::Fail(n, k) if n == call => {
                    self.injected = Some(k);
                    return Err(mk_err(k, "injected read error"));
                }
                Dev::Short(n, k) if n == call => limit = limit.min(k),
                _ => {}
            }
        }
        let n = buf.len().min(self.data.len() - self.pos).min(limit);
        buf[..n].copy_from_slice(&self.data[self.pos..self.pos + n]);
        self.pos += n;
        self.log.push(n);
        Ok(n)
    }
}

pub struct ScriptWrite {
    pub out: Vec<u8>,
    pub calls: usize,
    pub devs: Vec<Dev>,
    pub max_per_call: usize,
    pub fail_at_offset: Option<(usize, u8)>,
    pub injected: Option<u8>,
}

impl Write for ScriptWrite {
    fn write(&mut self, buf: &[u8]) -> std::io::Result<usize> {
        let call = self.calls;
        self.calls += 1;
        if let Some((off, k)) = self.fail_at_offset {
            if self.out.len() + buf.len() > off {
                // accept the bytes before the offset first (a real device would), then fail
                let room = off.saturating_sub(self.out.len());
                if room > 0 {
                    self.out.extend_from_slice(&buf[..room]);
                    return Ok(room);
                }
                self.fail_at_offset = None;
                self.injected = Some(k);
                if k == 14 {
                    return Ok(0);
                }
                return Err(mk_err(k, "injected write error"));
            }
        }
        let mut limit = self.max_per_call;
        for d in &self.devs {
            match *d {
                // kind 14: the destination accepts nothing and says so with Ok(0) (a full fixed-size buffer)
                Dev::Fail(n, 14) if n == call => {
                    self.injected = Some(14);
                    return Ok(0);
                }
                Dev::Fail(n, k) if n == call => {
                    self.injected = Some(k);
                    return Err(mk_err(k, "injected write error"));
                }
                Dev::Short(n, k) if n == call => limit = limit.min(k),
                _ => {}
            }
        }
        let n = buf.len().min(limit);
        self.out.extend_from_slice(&buf[..n]);
        Ok(n)
    }
    fn flush(&mut self) -> std::io::Result<()> {
        Ok(())
    }
}

#[derive(Clone, Debug, Default)]
pub struct IoScript {
    pub rdevs: Vec<Dev>,
    pub wdevs: Vec<Dev>,
    pub rmax: usize,
    pub wmax: usize,
    pub rfail_off: Option<(usize, u8)>,
    pub wfail_off: Option<(usize, u8)>,
}

pub struct IoResult {
    pub result: Result<R<()>, PanicInfo>,
    pub out: Vec<u8>,
    pub rcalls: usize,
    pub wcalls: usize,
    pub injected: Option<u8>,
}

pub fn run_io(s: &dyn Subject, container: &[u8], sc: &IoScript) -> IoResult {
    let mut r = ScriptRead {
        data: container,
        pos: 0,
        calls: 0,
        devs: sc.rdevs.clone(),
        max_per_call: if sc.rmax == 0 { usize::MAX } else { sc.rmax },
        fail_at_offset: sc.rfail_off,
        injected: None,
        log: Vec::new(),
    };
    let mut w = ScriptWrite {
        out: Vec::new(),
        calls: 0,
        devs: sc.wdevs.clone(),
        max_per_call: if sc.wmax == 0 { usize::MAX } else { sc.wmax },
        fail_at_offset: sc.wfail_off,
        injected: None,
    };
    let result = caught(|| s.recreate(&mut r, &mut w));
    IoResult { result, out: w.out, rcalls: r.calls, wcalls: w.calls, injected: r.injected.or(w.injected) }
}

fn c13_judge(ctx: &Ctx, st: &mut Local, eng: &str, idx: u64, file: &[u8], sc: &IoScript, res: &IoResult) {
    let descr = || format!("{:?}", sc);
    match &res.result {
        Err(p) => {
            st.violation(ctx.viol(eng, idx, "panic", Some(p.loc.clone()), format!("recreated_zlib_chunks panicked under {}: {}", descr(), p.msg), file));
        }
        Ok(Ok(())) => {
            let retried_ok = res.injected == Some(2);
            if res.injected.is_some() && !retried_ok {
                st.violation(ctx.viol(eng, idx, "io-error-swallowed", None, format!("an injected I/O error was swallowed: Ok under {}", descr()), file));
            } else if res.out != file {
                st.violation(ctx.viol(eng, idx, "output-differs", None,
                    format!("output ({} bytes) differs from the file ({} bytes) under {}", res.out.len(), file.len(), descr()), file));
            } else {
                st.outcome(eng, if res.injected.is_some() { "ok-after-interrupted-retry" } else { "ok-exact" });
            }
        }
        Ok(Err(e)) => {
            if res.injected.is_none() {
                st.violation(ctx.viol(eng, idx, "err-without-fault", None, format!("Err({}) although no error was injected, under {}", first_line(&e.msg), descr()), file));
            } else if res.out.len() > file.len() || res.out[..] != file[..res.out.len()] {
                st.violation(ctx.viol(eng, idx, "written-bytes-not-a-prefix", None,
                    format!("after an injected error the {} bytes written are not a prefix of the file, under {}", res.out.len(), descr()), file));
            } else {
                st.outcome(eng, "err-clean-prefix");
            }
        }
    }
}

pub fn run_c13(ctx: &Ctx, st: &mut Local) {
    let name = "E11io";
    if !ctx.engine_on(name) {
        return;
    }
    let s = ctx.cur;
    let mut files = file_menu(ctx.quick());
    if ctx.quick() {
        files.retain(|(d, f)| f.len() <= 2400 || d.starts_with("literal") || d.starts_with("zeros") || d == "multi");
    }
    let mut idx = 0u64;
    let mut total_scripts = 0u64;
    for (d, f) in &files {
        let cont = match caught(|| s.expand(f)) {
            Ok(Ok(e)) => e,
            _ => continue,
        };
        // default run: learn the number of read/write calls
        let base = run_io(s, &cont, &IoScript::default());
        let (nr, nw) = (base.rcalls, base.wcalls);
        let big = cont.len() > 20_000;
        let mut scripts: Vec<IoScript> = vec![IoScript::default()];
        // uniform fragmentation policies
        for &k in &[1usize, 2, 3, 7, 8, 0] {
            for &m in &[1usize, 2, 3, 7, 8, 0] {
                if big && (k == 1 || m == 1 || k == 2 || m == 2) && ctx.quick() {
                    continue;
                }
                scripts.push(IoScript { rmax: k, wmax: m, ..Default::default() });
            }
        }
        // single deviations at every call
        let mut singles: Vec<(bool, Dev)> = Vec::new();
        let rcalls: Vec<usize> = if big { (0..nr).filter(|c| *c < 12 || *c + 12 >= nr).collect() } else { (0..nr).collect() };
        let wcalls: Vec<usize> = if big { (0..nw).filter(|c| *c < 12 || *c + 12 >= nw).collect() } else { (0..nw).collect() };
        for &c in &rcalls {
            singles.push((true, Dev::Short(c, 1)));
            singles.push((true, Dev::Short(c, 5)));
            for k in 0..3 {
                singles.push((true, Dev::Fail(c, k)));
            }
        }
        for &c in &wcalls {
            singles.push((false, Dev::Short(c, 1)));
            singles.push((false, Dev::Short(c, 5)));
            for k in [0u8, 2, 3, 4, 14] {
                singles.push((false, Dev::Fail(c, k)));
            }
        }
        // what the error object carries (first three read and write calls; pairs below do not multiply these)
        let mut payload_singles: Vec<(bool, Dev)> = Vec::new();
        for k in 6u8..=13 {
            for &c in rcalls.iter().take(3) {
                payload_singles.push((true, Dev::Fail(c, k)));
            }
            for &c in wcalls.iter().take(3) {
                payload_singles.push((false, Dev::Fail(c, k)));
            }
        }
        for (isr, dv) in &payload_singles {
            let mut sc = IoScript::default();
            if *isr {
                sc.rdevs.push(*dv)
            } else {
                sc.wdevs.push(*dv)
            }
            scripts.push(sc);
        }
        for (isr, dv) in &singles {
            let mut sc = IoScript::default();
            if *isr {
                sc.rdevs.push(*dv)
            } else {
                sc.wdevs.push(*dv)
            }
            scripts.push(sc);
        }
        // pairs of deviations
        if cont.len() <= if ctx.quick() { 2400 } else { 6000 } {
            for a in 0..singles.len() {
                for b in a + 1..singles.len() {
                    let mut sc = IoScript::default();
                    for (isr, dv) in [&singles[a], &singles[b]] {
                        if *isr {
                            sc.rdevs.push(*dv)
                        } else {
                            sc.wdevs.push(*dv)
                        }
                    }
                    scripts.push(sc);
                }
            }
        }
        // an injected error at every source / destination byte offset
        let roffs: Vec<usize> = (0..=cont.len()).filter(|o| !big || *o < 64 || *o + 64 > cont.len() || o % 97 == 0).collect();
        let woffs: Vec<usize> = (0..f.len()).filter(|o| !big || *o < 64 || *o + 64 > f.len() || o % 97 == 0).collect();
        for &o in &roffs {
            for k in [0u8, 2, 4] {
                scripts.push(IoScript { rfail_off: Some((o, k)), ..Default::default() });
                if !ctx.quick() || o % 5 == 0 {
                    scripts.push(IoScript { rfail_off: Some((o, k)), rmax: 3, wmax: 7, ..Default::default() });
                }
            }
        }
        for &o in &woffs {
            for k in [0u8, 2, 4, 5, 14] {
                scripts.push(IoScript { wfail_off: Some((o, k)), ..Default::default() });
                if !ctx.quick() || o % 5 == 0 {
                    scripts.push(IoScript { wfail_off: Some((o, k)), rmax: 7, wmax: 3, ..Default::default() });
                }
            }
        }
        total_scripts += scripts.len() as u64;
        for sc in &scripts {
            let i = idx;
            idx += 1;
            count(ctx, name, st, i, sc.rmax != 0 || sc.wmax != 0 || !sc.rdevs.is_empty() || !sc.wdevs.is_empty() || sc.rfail_off.is_some() || sc.wfail_off.is_some());
            if !ctx.take(name, i) {
                continue;
            }
            st.sample(name, || format!("#{} file {} ({} bytes, container {} bytes, {} reads / {} writes by default): {:?}", i, d, f.len(), cont.len(), nr, nw, sc));
            ctx.begin(name, i, 60_000);
            let res = run_io(s, &cont, sc);
            ctx.end();
            c13_judge(ctx, st, name, i, f, sc, &res);
        }
    }
    // histories on one fresh thread: a call that fails with an injected error, then a clean call
    let hname = "E11hist";
    if ctx.engine_on(hname) {
        let mut hidx = 0u64;
        for (d, f) in files.iter().take(if ctx.quick() { 8 } else { 24 }) {
            let cont = match caught(|| s.expand(f)) {
                Ok(Ok(e)) => e,
                _ => continue,
            };
            let base = run_io(s, &cont, &IoScript::default());
            let (nr, nw) = (base.rcalls.min(40), base.wcalls.min(40));
            let mut faults: Vec<IoScript> = Vec::new();
            for c in 0..nr {
                faults.push(IoScript { rdevs: vec![Dev::Fail(c, 0)], ..Default::default() });
            }
            for c in 0..nw {
                faults.push(IoScript { wdevs: vec![Dev::Fail(c, 0)], ..Default::default() });
                faults.push(IoScript { wdevs: vec![Dev::Short(c, 1), Dev::Fail(c + 1, 4)], ..Default::default() });
            }
            for sc in &faults {
                let i = hidx;
                hidx += 1;
                count(ctx, hname, st, i, true);
                if !ctx.take(hname, i) {
                    continue;
                }
                st.sample(hname, || format!("#{} file {}: call under {:?}, then a clean call on the same thread", i, d, sc));
                ctx.begin(hname, i, 60_000);
                let second = std::thread::scope(|t| {
                    t.spawn(|| {
                        let _ = run_io(s, &cont, sc);
                        run_io(s, &cont, &IoScript::default())
                    })
                    .join()
                });
                ctx.end();
                match second {
                    Ok(r) => match &r.result {
                        Ok(Ok(())) if r.out == *f => st.outcome(hname, "clean-call-after-failed-call-ok"),
                        Err(p) => st.violation(ctx.viol(hname, i, "panic-after-failed-call", Some(p.loc.clone()),
                            format!("a clean recreated_zlib_chunks call panics after a call on the same thread failed under {:?}: {}", sc, p.msg), f)),
                        _ => st.violation(ctx.viol(hname, i, "wrong-after-failed-call", None,
                            format!("a clean call after a call that failed under {:?} does not return the file", sc), f)),
                    },
                    Err(_) => st.violation(ctx.viol(hname, i, "panic-after-failed-call", None, "thread died".into(), f)),
                }
            }
        }
        let e = st.eng(hname);
        e.bound = "per container: for every read and write call (first 40) a call that fails there (Other; partial write then WouldBlock), followed by a clean call on the same fresh thread".into();
        e.exhaustive = true;
    }
    let e = st.eng(name);
    e.bound = format!(
        "{} containers; per container: the default environment, 36 uniform fragmentation policies (reads <= k, writes <= m; k, m in 1,2,3,7,8,inf), every single deviation (short read/partial write of 1 and of 5 bytes, errors Other/UnexpectedEof/Interrupted/WriteZero/WouldBlock) at every read and write call, every pair of deviations for containers <= {} bytes, a one-shot error (Other, Interrupted, WouldBlock, TimedOut) at every source byte offset and every destination byte offset (large containers: first/last 64 offsets and every 97th); {} environment scripts in total",
        files.len(), if ctx.quick() { 2400 } else { 6000 }, total_scripts
    );
    e.exhaustive = true;
}
