//! dispatcher: property id -> check
use crate::rt::*;

pub fn run(ctx: &Ctx, st: &mut Local) {
    match ctx.property {
        "C02" => crate::props_stream::run_c02(ctx, st),
        "C03" => crate::props_stream::run_c03(ctx, st),
        "C05" => crate::props_stream::run_c05(ctx, st),
        "C07" => crate::props_stream::run_c07(ctx, st),
        p => {
            eprintln!("unknown property {}", p);
            std::process::exit(2);
        }
    }
}
