//! dispatcher: property id -> check
use crate::rt::*;

pub fn run(ctx: &Ctx, st: &mut Local) {
    match ctx.property {
        "C01" => crate::props_file::run_c01(ctx, st),
        "C02" => crate::props_stream::run_c02(ctx, st),
        "C03" => crate::props_stream::run_c03(ctx, st),
        "C04" => crate::props_misc::run_c04(ctx, st),
        "C05" => crate::props_stream::run_c05(ctx, st),
        "C06" => crate::props_file::run_c06(ctx, st),
        "C07" => crate::props_stream::run_c07(ctx, st),
        "C08" => crate::props_misc::run_c08(ctx, st),
        "C09" => crate::props_misc::run_c09(ctx, st),
        "C10" => crate::props_misc::run_c10(ctx, st),
        "C11" => crate::props_file::run_c11(ctx, st),
        "C12" => {
            crate::props_file::run_c12(ctx, st);
            crate::props_file::run_c12_hist(ctx, st);
            crate::props_file::run_c12_buf(ctx, st);
            crate::props_file::run_c12_damaged(ctx, st);
            crate::props_file::run_c12_adjacent(ctx, st);
            crate::props_file::run_c12_env(ctx, st);
            crate::props_file::run_c12_big(ctx, st);
        }
        "C13" => crate::props_file::run_c13(ctx, st),
        "C14" => crate::props_c14::run_c14(ctx, st),
        p => {
            eprintln!("unknown property {}", p);
            std::process::exit(2);
        }
    }
}

/// judgements that need the merged statistics of all workers
pub fn finalize(property: &str, total: &mut Local) {
    if property == "C09" {
        crate::props_misc::finalize_c09(total);
    }
}
