//! C02, C03, C04, C05, C07: properties quantified over DEFLATE streams.

use crate::comp::{self, Comp};
use crate::model::LzCfg;
use crate::mutspace;
use crate::rt::*;
use crate::streams::*;

fn is_panic<T>(r: &Result<R<T>, PanicInfo>) -> Option<&PanicInfo> {
    r.as_ref().err()
}

// ---------------------------------------------------------------------------------------------
// shared stream spaces

pub fn zlib_lensweep_comps() -> Vec<Comp> {
    let mut v = Vec::new();
    for l in 0..=9 {
        v.push(Comp::Zlib(l, 0, 15, 8));
    }
    for s in 1..=4 {
        v.push(Comp::Zlib(6, s, 15, 8));
        v.push(Comp::Zlib(1, s, 9, 1));
    }
    v.extend(comp::other_comps());
    v
}

pub fn lazy_small_block_comps(quick: bool) -> Vec<Comp> {
    let mut v = Vec::new();
    for l in 4..=9 {
        for m in 1..=3 {
            v.push(Comp::Zlib(l, 0, 15, m));
            if !quick {
                v.push(Comp::Zlib(l, 0, 12, m));
            }
        }
    }
    v
}

pub fn lazy_small_block_texts(quick: bool) -> Vec<(usize, usize)> {
    if quick {
        vec![(12, 300_000), (8, 200_000)]
    } else {
        vec![(12, 300_000), (12, 1_000_000), (6, 300_000), (8, 300_000), (1, 300_000), (0, 200_000)]
    }
}

pub fn grid_texts(ctx: &Ctx) -> Vec<(usize, usize)> {
    if ctx.quick() {
        vec![(1, 4096), (2, 4096), (3, 3000), (8, 12_000), (9, 12_000), (10, 4000), (11, 16_000), (13, 10_944)]
    } else {
        vec![(0, 4096), (1, 4096), (2, 4096), (3, 3000), (4, 2048), (8, 12_000), (9, 12_000), (9, 40_000), (10, 4000), (11, 16_000), (11, 80_000), (13, 10_944), (13, 76_608), (1, 65536), (2, 70000), (8, 140_000), (5, 200_000)]
    }
}

pub fn dev_specs(ctx: &Ctx) -> Vec<DevSpec> {
    let greedy = LzCfg { lazy: false, max_chain: 32, nice: 258, window: 32768 };
    let lazy = LzCfg { lazy: true, max_chain: 16, nice: 32, window: 32768 };
    let fast = LzCfg { lazy: false, max_chain: 4, nice: 8, window: 4096 };
    if ctx.quick() {
        vec![
            DevSpec { kind: 1, len: 600, cfg: greedy, dynamic: false, d: 1 },
            DevSpec { kind: 0, len: 120, cfg: lazy, dynamic: true, d: 1 },
            DevSpec { kind: 3, len: 700, cfg: fast, dynamic: false, d: 1 },
        ]
    } else {
        let mut v = Vec::new();
        for (kind, len) in [(0, 512), (1, 2048), (2, 2048), (3, 4096), (5, 3000), (6, 1024), (7, 4096), (1, 512)] {
            for (ci, cfg) in [greedy, lazy, fast].iter().enumerate() {
                v.push(DevSpec { kind, len, cfg: *cfg, dynamic: ci == 1, d: 1 });
            }
        }
        v.push(DevSpec { kind: 0, len: 200, cfg: greedy, dynamic: false, d: 2 });
        v.push(DevSpec { kind: 1, len: 400, cfg: lazy, dynamic: true, d: 2 });
        v.push(DevSpec { kind: 6, len: 300, cfg: fast, dynamic: false, d: 2 });
        v
    }
}

/// runs `f` over the stream spaces shared by C02/C03/C04/C05 at the tier's bounds
pub fn shared_stream_spaces(ctx: &Ctx, st: &mut Local, f: Sink) {
    let both = Kinds { fixed: true, dynamic: true };
    let fixed = Kinds { fixed: true, dynamic: false };
    if ctx.quick() {
        e1_tokspace(ctx, "E1(2,10)", 2, 10, fixed, st, f);
        e1_tokspace(ctx, "E1(3,7)", 3, 7, both, st, f);
    } else {
        e1_tokspace(ctx, "E1(2,13)", 2, 13, fixed, st, f);
        e1_tokspace(ctx, "E1(2,11)d", 2, 11, Kinds { fixed: false, dynamic: true }, st, f);
        e1_tokspace(ctx, "E1(3,9)", 3, 9, both, st, f);
    }
    e2_blockspace(ctx, "E2", st, f);
    e2_padspace(ctx, "E2p", st, f);
    e2_crossblock(ctx, "E2s", st, f);
    e2_zlib_lookalikes(ctx, "E2z", st, f);
    e3_dynspace(ctx, "E3", st, f);
    e3_pairs(ctx, "E3pair", st, f);
    e3_tails(ctx, "E3tail", st, f);
    e5_devspace(ctx, "E5", &dev_specs(ctx), st, f);
    // one reference per stream at the length / distance boundaries
    {
        let dists: Vec<u16> = if ctx.quick() {
            e4_quick_dists().into_iter().filter(|d| *d <= 8 || *d >= 249).collect()
        } else {
            let mut v = e4_quick_dists();
            v.extend((301..32768u32).step_by(61).map(|d| d as u16));
            v.sort();
            v.dedup();
            v
        };
        let lens: &[u16] = if ctx.quick() { &[3, 4, 258] } else { &[3, 4, 5, 10, 11, 257, 258] };
        e4_single(ctx, "E4s", lens, &dists, st, f);
    }
    e4_runs(ctx, "E4run", st, f);
    e4_overreach(ctx, "E4over", st, f);
    e6_chainspace(ctx, "E6chain", st, f);
    let comps: Vec<Comp> = if ctx.quick() {
        let mut v = comp::zlib_grid_quick();
        v.extend(comp::other_comps());
        v
    } else {
        let mut v = comp::zlib_grid_full();
        v.extend(comp::other_comps());
        v
    };
    let mut g = |st: &mut Local, e: &str, i: u64, c: &StreamCase, _k: &Comp| f(st, e, i, c);
    e6_compgrid(ctx, "E6", &comps, &grid_texts(ctx), st, &mut g);
    // long plaintexts: u16 position reshift (0xfe08 / 0x7e00), 32 KiB window edges, 4 KiB add-policy boundaries
    let bigcomps: Vec<Comp> = if ctx.quick() {
        vec![Comp::Zlib(1, 0, 15, 8), Comp::Zlib(6, 0, 15, 8), Comp::Zlib(9, 0, 15, 9), Comp::Zlib(6, 0, 9, 1), Comp::Zlib(3, 3, 15, 8), Comp::Zlib(6, 2, 15, 8), Comp::Zlib(0, 0, 15, 8),
            Comp::ZlibNg(1), Comp::ZlibNg(2), Comp::ZlibNg(6), Comp::Libdeflate(1), Comp::Libdeflate(6), Comp::Libdeflate(12), Comp::Miniz(1), Comp::Miniz(6), Comp::Miniz(10)]
    } else {
        let mut v = Vec::new();
        for l in 0..=9 { for w in [9, 12, 15] { for m in [1, 8, 9] { v.push(Comp::Zlib(l, 0, w, m)); } } }
        for s in 1..=4 { v.push(Comp::Zlib(6, s, 15, 8)); v.push(Comp::Zlib(2, s, 10, 3)); }
        v.extend(comp::other_comps());
        v
    };
    let bigtexts: Vec<(usize, usize)> = if ctx.quick() { vec![(8, 70_000), (1, 140_000)] } else { vec![(8, 70_000), (1, 140_000), (2, 100_000), (3, 200_000), (6, 66_000), (8, 300_000)] };
    e6_compgrid(ctx, "E6big", &bigcomps, &bigtexts, st, &mut g);
    // lazy compressors with tiny blocks (memLevel 1..3: 127/255/511 tokens per block) on long self-similar
    // texts: thousands of block boundaries, many of them right behind a deferred (lazy) literal
    e6_compgrid(ctx, "E6blocks", &lazy_small_block_comps(ctx.quick()), &lazy_small_block_texts(ctx.quick()), st, &mut g);
    // every alignment of a long match relative to the hash chain's position re-base thresholds
    let acomps: Vec<Comp> = if ctx.quick() { vec![Comp::Zlib(6, 0, 15, 8), Comp::Libdeflate(6)] } else {
        vec![Comp::Zlib(1, 0, 15, 8), Comp::Zlib(4, 0, 15, 8), Comp::Zlib(6, 0, 15, 8), Comp::Zlib(9, 0, 15, 9), Comp::ZlibNg(1), Comp::ZlibNg(2), Comp::ZlibNg(6), Comp::Libdeflate(1), Comp::Libdeflate(6), Comp::Miniz(1), Comp::Miniz(6)]
    };
    let wins: Vec<(usize, usize)> = if ctx.quick() { vec![(65024 - 270, 65024 + 520)] } else { vec![(65024 - 300, 65024 + 520), (97280 - 300, 97280 + 520), (32768 - 300, 32768 + 300)] };
    e6_align(ctx, "E6align", &acomps, &wins, st, &mut g);
    // 4 KiB boundaries of the fast compressors' dictionary add policies (miniz level 1: no insertion at
    // offsets 4093..4095 mod 4096; zlib-ng level 1: 32 KiB boundary) and zlib level 1
    let fcomps: Vec<Comp> = vec![Comp::Miniz(1), Comp::Zlib(1, 0, 15, 8), Comp::ZlibNg(1)];
    let fwins: Vec<(usize, usize)> = if ctx.quick() { vec![(4096 - 12, 4096 + 8), (8192 - 12, 8192 + 8)] } else { vec![(4096 - 20, 4096 + 20), (8192 - 20, 8192 + 20), (12288 - 20, 12288 + 20), (32768 - 300, 32768 + 40)] };
    e6_align(ctx, "E6align4k", &fcomps, &fwins, st, &mut g);
    let sweep = if ctx.quick() { 96 } else { 512 };
    let kinds: &[usize] = if ctx.quick() { &[1, 3] } else { &[0, 1, 2, 3] };
    e6_lensweep(ctx, "E6len", &zlib_lensweep_comps(), kinds, sweep, st, &mut g);
}

// ---------------------------------------------------------------------------------------------
// C02

const SUFFIXES: [&[u8]; 4] = [&[0x00], &[0xff], &[0x03, 0x00], &[0xde, 0xad, 0xbe, 0xef]];

/// the C02 oracle for one stream; `valid_len`: Some(n) if bytes[..n] is known to be the stream proper
pub fn c02_check(ctx: &Ctx, st: &mut Local, eng: &str, idx: u64, bytes: &[u8], suffixes: &[&[u8]]) {
    let s = ctx.cur;
    let rf = caught(|| s.decompress(bytes, false));
    let rt = caught(|| s.decompress(bytes, true));
    if let Some(p) = is_panic(&rf) {
        // totality of the analysis is C05's business
        st.outcome(eng, &format!("analysis-panic@{}", p.loc));
        return;
    }
    let rf = rf.unwrap();
    // a panic of the verify=true call is again C05's business, but it must not hide what the
    // verify=false call returned: that result is judged below on its own
    let rt_panic = is_panic(&rt).map(|p| p.loc.clone());
    let rt: R<Split> = match rt {
        Ok(r) => r,
        Err(_) => match &rf {
            Ok(r) => Ok(r.clone()),
            Err(e) => Err(e.clone()),
        },
    };
    let r = match &rf {
        Err(_) => {
            if rt.is_ok() {
                st.violation(ctx.viol(eng, idx, "verify-settings-disagree", None,
                    "verify=false returns Err but verify=true returns Ok".into(), bytes));
            } else {
                st.outcome(eng, "rejected");
            }
            return;
        }
        Ok(r) => r.clone(),
    };
    if r.size > bytes.len() {
        st.violation(ctx.viol(eng, idx, "size-beyond-input", None, format!("compressed_size {} > {}", r.size, bytes.len()), bytes));
        return;
    }
    // (1) rebuild from the verify=false result
    match caught(|| s.recompress(&r.plain, &r.corr)) {
        Err(p) => {
            st.violation(ctx.viol(eng, idx, "rebuild-panic", Some(p.loc.clone()), format!("recompress panicked: {}", p.msg), bytes));
            return;
        }
        Ok(Err(e)) => {
            st.violation(ctx.viol(eng, idx, "rebuild-err", None, format!("accepted with verify=false, recompress fails: {}", first_line(&e.msg)), bytes));
            return;
        }
        Ok(Ok(re)) => {
            if re[..] != bytes[..r.size] {
                st.violation(ctx.viol(eng, idx, "rebuild-differs", None,
                    format!("accepted with verify=false, recompress gives {} instead of the first {} input bytes", hex_short(&re), r.size), bytes));
                return;
            }
        }
    }
    // (2) both verify settings agree
    match &rt {
        Err(e) => {
            st.violation(ctx.viol(eng, idx, "verify-settings-disagree", None,
                format!("verify=false Ok (and rebuild exact) but verify=true Err: {}", first_line(&e.msg)), bytes));
            return;
        }
        Ok(t) => {
            if *t != r {
                st.violation(ctx.viol(eng, idx, "verify-settings-disagree", None, "results differ between verify settings".into(), bytes));
                return;
            }
        }
    }
    // (3) the result depends only on bytes[..size]
    if r.size < bytes.len() {
        match caught(|| s.decompress(&bytes[..r.size], false)) {
            Ok(Ok(t)) if t == r => {}
            other => {
                st.violation(ctx.viol(eng, idx, "depends-on-trailing-bytes", None,
                    format!("result for input cut to compressed_size differs: {}", outcome_brief(&other)), bytes));
                return;
            }
        }
    }
    for suf in suffixes {
        let mut d = bytes[..r.size].to_vec();
        d.extend_from_slice(suf);
        match caught(|| s.decompress(&d, false)) {
            Ok(Ok(t)) if t == r => {}
            other => {
                st.violation(ctx.viol(eng, idx, "depends-on-trailing-bytes", None,
                    format!("result with suffix {} differs: {}", hex(suf), outcome_brief(&other)), bytes));
                return;
            }
        }
    }
    match rt_panic {
        Some(loc) => st.outcome(eng, &format!("accepted-and-rebuilt-exactly(verify=true panics@{}: C05)", loc)),
        None => st.outcome(eng, "accepted-and-rebuilt-exactly"),
    }
}

pub fn first_line(s: &str) -> String {
    let mut l = s.lines().next().unwrap_or("").to_string();
    l.truncate(160);
    l
}

fn outcome_brief(r: &Result<R<Split>, PanicInfo>) -> String {
    match r {
        Err(p) => format!("panic at {}", p.loc),
        Ok(Err(e)) => format!("Err({})", first_line(&e.msg)),
        Ok(Ok(s)) => format!("Ok(plain {} bytes, corr {} bytes, size {})", s.plain.len(), s.corr.len(), s.size),
    }
}

pub fn run_c02(ctx: &Ctx, st: &mut Local) {
    let sufs: Vec<&[u8]> = if ctx.quick() { vec![SUFFIXES[1], SUFFIXES[2]] } else { SUFFIXES.to_vec() };
    let mut f = |st: &mut Local, eng: &str, i: u64, c: &StreamCase| {
        c02_check(ctx, st, eng, i, &c.bytes, &sufs);
    };
    shared_stream_spaces(ctx, st, &mut f);
    // mutants of valid streams: anything still accepted must still be rebuilt exactly
    let mut g = |st: &mut Local, eng: &str, i: u64, b: &[u8]| {
        c02_check(ctx, st, eng, i, b, &[]);
    };
    mutspace::e8_stream_mutants(ctx, "E8", st, &mut g);
}

// ---------------------------------------------------------------------------------------------
// C05

pub fn c05_check(ctx: &Ctx, st: &mut Local, eng: &str, idx: u64, bytes: &[u8]) {
    let s = ctx.cur;
    let mut cls = String::new();
    for verify in [false, true] {
        match caught(|| s.decompress(bytes, verify)) {
            Err(p) => {
                st.violation(ctx.viol(eng, idx, "panic", Some(p.loc.clone()),
                    format!("decompress_deflate_stream(verify={}) panicked: {}", verify, p.msg), bytes));
                return;
            }
            Ok(Ok(_)) => cls.push_str("Ok"),
            Ok(Err(e)) => {
                cls.push_str("Err");
                cls.push_str(&e.code.to_string());
            }
        }
        cls.push('/');
    }
    st.outcome(eng, &cls);
}

pub fn run_c05(ctx: &Ctx, st: &mut Local) {
    let mut f = |st: &mut Local, eng: &str, i: u64, c: &StreamCase| c05_check(ctx, st, eng, i, &c.bytes);
    shared_stream_spaces(ctx, st, &mut f);
    let mut g = |st: &mut Local, eng: &str, i: u64, b: &[u8]| c05_check(ctx, st, eng, i, b);
    mutspace::e7_bytespace(ctx, "E7", if ctx.quick() { 2 } else { 3 }, st, &mut g);
    mutspace::e8_stream_mutants(ctx, "E8", st, &mut g);
    mutspace::header_noise(ctx, "E8hdr", st, &mut g);
}

// ---------------------------------------------------------------------------------------------
// C03

pub fn c03_check(ctx: &Ctx, st: &mut Local, eng: &str, idx: u64, bytes: &[u8], plain: Option<&[u8]>) {
    c03_one(ctx, st, eng, idx, bytes, plain, "");
    // the same stream followed by another complete stream: zlib stops at the end of the first one, so
    // plaintext and consumed length are judged against zlib on the concatenation as well (the subject
    // may accept the concatenation even where it rejects the bare stream)
    let mut two = bytes.to_vec();
    two.extend_from_slice(&[0x4b, 0x04, 0x00, 0xaa]);
    c03_one(ctx, st, eng, idx, &two, None, "+stream");
}

fn c03_one(ctx: &Ctx, st: &mut Local, eng: &str, idx: u64, bytes: &[u8], plain: Option<&[u8]>, tag: &str) {
    let s = ctx.cur;
    let r = match caught(|| s.decompress(bytes, false)) {
        Err(p) => {
            st.outcome(eng, &format!("analysis-panic@{}{}", p.loc, tag));
            return;
        }
        Ok(Err(_)) => {
            st.outcome(eng, &format!("rejected-by-subject{}", tag));
            return;
        }
        Ok(Ok(r)) => r,
    };
    let z = match comp::zlib_inflate_raw(bytes, r.plain.len().max(1 << 20) * 2) {
        Err(_) => {
            st.outcome(eng, &format!("accepted-by-subject-rejected-by-zlib{}", tag));
            return;
        }
        Ok(z) => z,
    };
    if r.plain != z.out {
        let at = r.plain.iter().zip(z.out.iter()).position(|(a, b)| a != b).unwrap_or(r.plain.len().min(z.out.len()));
        st.violation(ctx.viol(eng, idx, &format!("plaintext-differs-from-zlib{}", tag), None,
            format!("plain_text ({} bytes) differs from zlib's output ({} bytes) at offset {}", r.plain.len(), z.out.len(), at), bytes));
        return;
    }
    if r.size != z.consumed {
        st.violation(ctx.viol(eng, idx, &format!("consumed-differs-from-zlib{}", tag), None,
            format!("compressed_size {} but zlib consumed {}", r.size, z.consumed), bytes));
        return;
    }
    if let Some(p) = plain {
        if r.plain != p {
            st.violation(ctx.viol(eng, idx, "plaintext-differs-from-source", None,
                "plain_text differs from the plaintext the stream was produced from".into(), bytes));
            return;
        }
    }
    st.outcome(eng, &format!("agrees-with-zlib{}", tag));
}

pub fn run_c03(ctx: &Ctx, st: &mut Local) {
    let mut f = |st: &mut Local, eng: &str, i: u64, c: &StreamCase| {
        c03_check(ctx, st, eng, i, &c.bytes, c.plain.as_deref());
    };
    shared_stream_spaces(ctx, st, &mut f);
    all_literals(ctx, "Lits", st, &mut f);
    // every (length, distance) pair: the full API where it accepts, and the parser hook on all
    // (the hook exposes exactly the plaintext/consumed pair the API returns when it accepts)
    let dists = if ctx.quick() { e4_quick_dists() } else { (1..=32768u32).map(|d| d as u16).collect() };
    let mut g = |st: &mut Local, eng: &str, i: u64, c: &StreamCase| {
        let full = i % 40 == 0 || !ctx.quick();
        if full && !c.bytes.is_empty() {
            c03_check(ctx, st, eng, i, &c.bytes, c.plain.as_deref());
        }
        c03_parser_check(ctx, st, eng, i, &c.bytes, c.plain.as_deref());
    };
    e4_pairspace(ctx, "E4", &dists, st, &mut g);
    // many distinct dynamic headers one after the other on one thread (public API)
    let judge = |c: &StreamCase| -> Option<String> {
        match caught(|| ctx.cur.decompress(&c.bytes, false)) {
            Ok(Ok(r)) => {
                if Some(&r.plain) != c.plain.as_ref() || r.size != c.bytes.len() {
                    Some("plain_text / compressed_size differ from what zlib and the model give for this stream".into())
                } else {
                    None
                }
            }
            _ => None,
        }
    };
    let (nb, per) = if ctx.quick() { (16, 100_000) } else { (64, 400_000) };
    e3_history(ctx, "E3hist", nb, per, st, &judge);
}

/// the reader alone (hook): plaintext and consumed length against zlib
fn c03_parser_check(ctx: &Ctx, st: &mut Local, eng: &str, idx: u64, bytes: &[u8], plain: Option<&[u8]>) {
    let s = ctx.cur;
    match caught(|| s.parse_and_rewrite(bytes)) {
        Err(p) => st.outcome(eng, &format!("parser-panic@{}", p.loc)),
        Ok(Err(_)) => st.outcome(eng, "parser-rejects"),
        Ok(Ok((_re, consumed, pl))) => {
            if let Ok(z) = comp::zlib_inflate_raw(bytes, pl.len().max(1 << 20) * 2) {
                if z.out != pl || z.consumed != consumed || plain.map_or(false, |p| p != pl) {
                    st.violation(ctx.viol(eng, idx, "reader-differs-from-zlib", None,
                        format!("reader yields {} bytes / consumed {}, zlib {} bytes / consumed {}", pl.len(), consumed, z.out.len(), z.consumed), bytes));
                    return;
                }
                st.outcome(eng, "reader-agrees-with-zlib");
            } else {
                st.outcome(eng, "reader-accepts-zlib-rejects");
            }
        }
    }
}

/// all 256 literals under the fixed code and under a dynamic code
fn all_literals(ctx: &Ctx, name: &str, st: &mut Local, f: Sink) {
    use crate::model::*;
    if !ctx.engine_on(name) {
        return;
    }
    let mut idx = 0;
    for variant in 0..7 {
        let i = idx;
        idx += 1;
        if ctx.sel.mine(i) {
            let e = st.eng(name);
            e.states += 256;
            e.transitions += 256;
            e.nontrivial += 1;
        }
        if !ctx.take(name, i) {
            continue;
        }
        let mut toks: Vec<Tok> = (0..=255u8).map(Tok::Lit).collect();
        if variant == 2 {
            // skewed frequencies: long and short codes
            for k in 0..8 {
                for _ in 0..(1 << k) {
                    toks.push(Tok::Lit(k as u8 * 31));
                }
            }
        }
        let blk = if variant == 0 {
            Block::Fixed { toks }
        } else if variant == 6 {
            // more than 255 codes of one length: all 256 literals and one length symbol at 9 bits, a chain
            // of shorter length symbols, EOB and one more symbol at 10 bits
            let mut ll = vec![9u8; 256];
            ll.push(10); // EOB
            ll.extend_from_slice(&[2, 3, 4, 5, 6, 7, 8, 10, 9]); // 257..=265
            assert_eq!(kraft(&ll), 1 << 15);
            for (k, len) in [3u16, 4, 5, 6, 7, 8, 9, 10, 11].iter().enumerate() {
                let _ = k;
                toks.push(Tok::Ref { len: *len, dist: 1 + (*len % 2), irr: false });
            }
            Block::Dyn { hdr: header_from_lengths(&ll, &[1, 1]), toks }
        } else if variant >= 3 {
            // maximally skewed codes in three rotations: every literal gets a 15-bit code in one of them
            let used: Vec<usize> = (0..=256).collect();
            let ll = crate::streams::skewed_lengths(257, &used, (variant - 3) * 86, 15);
            Block::Dyn { hdr: header_from_lengths(&ll, &[1, 1]), toks }
        } else {
            Block::Dyn { hdr: default_header(&toks), toks }
        };
        let s = Stream { blocks: vec![blk], final_pad: 0 };
        let bytes = serialise(&s);
        let case = StreamCase { stream_len: bytes.len(), plain: Some(plaintext(&s)), bytes, descr: format!("all literals variant {}", variant) };
        validate_model(&case);
        ctx.begin(name, i, 4000);
        f(st, name, i, &case);
        ctx.end();
    }
    let e = st.eng(name);
    e.bound = "all 256 literals under the fixed code, a flat dynamic code, a skewed dynamic code, three rotations of a maximally skewed code (15-bit codes) and a code with 257 symbols of one length".into();
    e.exhaustive = true;
}

// ---------------------------------------------------------------------------------------------
// C07

pub fn c07_check(ctx: &Ctx, st: &mut Local, eng: &str, idx: u64, bytes: &[u8], model: Option<(&[u8], usize)>) {
    let s = ctx.cur;
    match caught(|| s.parse_and_rewrite(bytes)) {
        Err(p) => {
            if model.is_some() {
                st.violation(ctx.viol(eng, idx, "panic-on-valid-stream", Some(p.loc.clone()), format!("parse/rewrite panicked: {}", p.msg), bytes));
            } else {
                st.outcome(eng, &format!("panic-on-unvalidated-input@{}", p.loc));
            }
        }
        Ok(Err(e)) => {
            st.outcome(eng, if model.is_some() { "valid-stream-rejected-by-parser" } else { "rejected" });
            let _ = e;
        }
        Ok(Ok((re, consumed, plain))) => {
            if consumed > bytes.len() || re[..] != bytes[..consumed] {
                let at = re.iter().zip(bytes.iter()).position(|(a, b)| a != b).unwrap_or(re.len().min(bytes.len()));
                st.violation(ctx.viol(eng, idx, "rewrite-differs", None,
                    format!("rewritten {} bytes differ from the {} consumed input bytes at offset {}: {}", re.len(), consumed, at, hex_short(&re)), bytes));
                return;
            }
            if let Some((p, n)) = model {
                if consumed != n {
                    st.violation(ctx.viol(eng, idx, "consumed-differs-from-model", None, format!("consumed {} but the stream is {} bytes", consumed, n), bytes));
                    return;
                }
                if plain != p {
                    st.violation(ctx.viol(eng, idx, "plaintext-differs-from-model", None, "parser plaintext differs from the model's".into(), bytes));
                    return;
                }
            }
            st.outcome(eng, "identity");
        }
    }
}

pub fn run_c07(ctx: &Ctx, st: &mut Local) {
    let mut f = |st: &mut Local, eng: &str, i: u64, c: &StreamCase| {
        let m = c.plain.as_deref().map(|p| (p, c.stream_len));
        c07_check(ctx, st, eng, i, &c.bytes, m);
    };
    let both = Kinds { fixed: true, dynamic: true };
    if ctx.quick() {
        e1_tokspace(ctx, "E1(2,12)", 2, 12, both, st, &mut f);
        e1_tokspace(ctx, "E1(3,9)", 3, 9, both, st, &mut f);
    } else {
        e1_tokspace(ctx, "E1(2,14)", 2, 14, both, st, &mut f);
        e1_tokspace(ctx, "E1(3,10)", 3, 10, both, st, &mut f);
    }
    e2_blockspace(ctx, "E2", st, &mut f);
    e2_padspace(ctx, "E2p", st, &mut f);
    e3_dynspace(ctx, "E3", st, &mut f);
    e3_pairs(ctx, "E3pair", st, &mut f);
    e3_tails(ctx, "E3tail", st, &mut f);
    e2_crossblock(ctx, "E2s", st, &mut f);
    all_literals(ctx, "Lits", st, &mut f);
    let dists = if ctx.quick() { e4_quick_dists() } else { (1..=32768u32).map(|d| d as u16).collect() };
    e4_pairspace(ctx, "E4", &dists, st, &mut f);
    e5_devspace(ctx, "E5", &dev_specs(ctx), st, &mut f);
    let comps: Vec<Comp> = {
        let mut v = if ctx.quick() { comp::zlib_grid_quick() } else { comp::zlib_grid_full() };
        v.extend(comp::other_comps());
        v
    };
    let mut g = |st: &mut Local, e: &str, i: u64, c: &StreamCase, _k: &Comp| f(st, e, i, c);
    e6_compgrid(ctx, "E6", &comps, &grid_texts(ctx), st, &mut g);
    let mut h = |st: &mut Local, eng: &str, i: u64, b: &[u8]| c07_check(ctx, st, eng, i, b, None);
    mutspace::e8_stream_mutants(ctx, "E8", st, &mut h);
    // many distinct dynamic headers one after the other on one thread
    let judge = |c: &StreamCase| -> Option<String> {
        match caught(|| ctx.cur.parse_and_rewrite(&c.bytes)) {
            Ok(Ok((re, consumed, plain))) => {
                if consumed != c.bytes.len() || re != c.bytes {
                    Some("rewritten bytes differ from the input".into())
                } else if Some(&plain) != c.plain.as_ref() {
                    Some("parser plaintext differs from the model's".into())
                } else {
                    None
                }
            }
            Ok(Err(e)) => Some(format!("valid stream rejected: {}", first_line(&e.msg))),
            Err(p) => Some(format!("panic at {}", p.loc)),
        }
    };
    let (nb, per) = if ctx.quick() { (16, 100_000) } else { (64, 400_000) };
    e3_history(ctx, "E3hist", nb, per, st, &judge);
}

// ---------------------------------------------------------------------------------------------
// C04 (stream half; the container half lives in props_file.rs)

pub fn c04_stream_check(ctx: &Ctx, st: &mut Local, eng: &str, idx: u64, bytes: &[u8]) {
    let r = match caught(|| ctx.refb.decompress(bytes, true)) {
        Err(p) => {
            st.outcome(eng, &format!("reference-panics@{}", p.loc));
            return;
        }
        Ok(Err(_)) => {
            st.outcome(eng, "reference-rejects");
            return;
        }
        Ok(Ok(r)) => r,
    };
    match caught(|| ctx.cur.recompress(&r.plain, &r.corr)) {
        Err(p) => st.violation(ctx.viol(eng, idx, "current-panics-on-reference-data", Some(p.loc.clone()),
            format!("recompress of reference-written corrections panicked: {}", p.msg), bytes)),
        Ok(Err(e)) => st.violation(ctx.viol(eng, idx, "current-rejects-reference-data", None,
            format!("recompress of reference-written corrections fails: {}", first_line(&e.msg)), bytes)),
        Ok(Ok(re)) => {
            if re[..] != bytes[..r.size] {
                st.violation(ctx.viol(eng, idx, "current-rebuilds-reference-data-differently", None,
                    format!("current build rebuilds {} from reference-written corrections", hex_short(&re)), bytes));
            } else {
                // label the trace with the parameter class the reference wrote (vacuity guard:
                // shows which hash algorithms / add policies / matching types are reached)
                let label = match caught(|| ctx.refb.estimate(bytes)) {
                    Ok(Ok(v)) => format!("rebuilt[strategy={} hash={} add={} {}]", v[0], v[4], v[16], if v[12] > 0 { "lazy" } else { "greedy" }),
                    _ => "rebuilt[?]".to_string(),
                };
                st.outcome(eng, &label);
            }
        }
    }
}
