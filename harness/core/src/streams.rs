//! Stream-space engines E1 … E6: explicit enumerators of DEFLATE streams. Every engine
//! numbers its cases deterministically; a worker executes the cases whose index falls into
//! its shard. Each model-generated stream is validated against zlib's inflate before the
//! subject sees it (a disagreement is a harness bug: exit 2, never a verdict).

use crate::comp::{self, Comp};
use crate::model::*;
use crate::rt::*;

pub struct StreamCase {
    pub bytes: Vec<u8>,
    /// plaintext according to the model (None for streams whose validity the model does not know)
    pub plain: Option<Vec<u8>>,
    /// length of the stream proper (without any trailing bytes appended by the engine)
    pub stream_len: usize,
    pub descr: String,
}

pub type Sink<'s> = &'s mut dyn FnMut(&mut Local, &str, u64, &StreamCase);

pub fn harness_bug(msg: &str) -> ! {
    eprintln!("HARNESS-BUG: {}", msg);
    std::process::exit(2);
}

/// zlib must agree with the model on every model-generated stream
pub fn validate_model(c: &StreamCase) {
    if let Some(p) = &c.plain {
        match comp::zlib_inflate_raw(&c.bytes, p.len() + 1024) {
            Ok(inf) => {
                if inf.out != *p || inf.consumed != c.stream_len {
                    harness_bug(&format!(
                        "model/zlib disagreement on {} ({}): consumed {} vs {}, out {} vs {} bytes",
                        hex_short(&c.bytes),
                        c.descr,
                        inf.consumed,
                        c.stream_len,
                        inf.out.len(),
                        p.len()
                    ));
                }
            }
            Err(rc) => harness_bug(&format!(
                "zlib rejects model stream {} ({}) rc={}",
                hex_short(&c.bytes),
                c.descr,
                rc
            )),
        }
    }
}

fn deliver(ctx: &Ctx, name: &str, st: &mut Local, idx: u64, case: StreamCase, f: Sink) {
    validate_model(&case);
    st.sample(name, || format!("#{} {} [{}]", idx, hex_short(&case.bytes), case.descr));
    ctx.begin(name, idx, limit_for(case.bytes.len()));
    f(st, name, idx, &case);
    ctx.end();
}

fn tok_descr(toks: &[Tok]) -> String {
    let mut s = String::new();
    for t in toks {
        match t {
            Tok::Lit(b) => s.push(*b as char),
            Tok::Ref { len, dist, irr } => {
                s.push_str(&format!("<{},{}{}>", len, dist, if *irr { "!" } else { "" }))
            }
        }
    }
    s
}

// ---------------------------------------------------------------------------------------------
// E1 tokspace(A, N)

/// which block encodings every node is closed with
#[derive(Clone, Copy)]
pub struct Kinds {
    pub fixed: bool,
    pub dynamic: bool,
}

pub fn e1_tokspace(ctx: &Ctx, name: &str, a: usize, n: usize, kinds: Kinds, st: &mut Local, f: Sink) {
    if !ctx.engine_on(name) {
        return;
    }
    let letters: Vec<u8> = (0..a).map(|i| b'a' + i as u8).collect();
    let mut idx: u64 = 0;
    let mut toks: Vec<Tok> = Vec::new();
    let mut plain: Vec<u8> = Vec::new();
    fn rec(
        ctx: &Ctx,
        name: &str,
        letters: &[u8],
        n: usize,
        kinds: Kinds,
        toks: &mut Vec<Tok>,
        plain: &mut Vec<u8>,
        idx: &mut u64,
        st: &mut Local,
        f: Sink,
    ) {
        // this node: the token sequence closed as a final block
        for k in 0..2 {
            if (k == 0 && !kinds.fixed) || (k == 1 && !kinds.dynamic) {
                continue;
            }
            let i = *idx;
            *idx += 1;
            if ctx.sel.mine(i) {
                let e = st.eng(name);
                e.states += 1;
                e.transitions += if toks.is_empty() { 0 } else { 1 };
                if toks.iter().any(|t| matches!(t, Tok::Ref { .. })) {
                    e.nontrivial += 1;
                }
            }
            if ctx.take(name, i) {
                let blk = if k == 0 {
                    Block::Fixed { toks: toks.clone() }
                } else {
                    Block::Dyn {
                        toks: toks.clone(),
                        hdr: default_header(toks),
                    }
                };
                let bytes = serialise(&Stream {
                    blocks: vec![blk],
                    final_pad: 0,
                });
                let case = StreamCase {
                    stream_len: bytes.len(),
                    bytes,
                    plain: Some(plain.clone()),
                    descr: format!("{}:{}", if k == 0 { "F" } else { "D" }, tok_descr(toks)),
                };
                deliver(ctx, name, st, i, case, f);
            }
        }
        let pos = plain.len();
        if pos >= n {
            return;
        }
        for &l in letters {
            toks.push(Tok::Lit(l));
            plain.push(l);
            rec(ctx, name, letters, n, kinds, toks, plain, idx, st, f);
            plain.pop();
            toks.pop();
        }
        for len in 3..=(n - pos) {
            for dist in 1..=pos {
                let t = Tok::Ref {
                    len: len as u16,
                    dist: dist as u16,
                    irr: false,
                };
                toks.push(t);
                apply_tokens(plain, &[t]);
                rec(ctx, name, letters, n, kinds, toks, plain, idx, st, f);
                plain.truncate(pos);
                toks.pop();
            }
        }
    }
    rec(ctx, name, &letters, n, kinds, &mut toks, &mut plain, &mut idx, st, f);
    let e = st.eng(name);
    e.bound = format!(
        "all token sequences over a {}-letter alphabet with plaintext <= {} bytes, each prefix closed as a final {} block",
        a,
        n,
        match (kinds.fixed, kinds.dynamic) {
            (true, true) => "fixed and dynamic",
            (true, false) => "fixed",
            _ => "dynamic",
        }
    );
    e.exhaustive = true;
}

// ---------------------------------------------------------------------------------------------
// E2 blockspace

fn seg_block(kind: u8, toks: &[Tok], before: &[u8], pad: u8) -> Block {
    match kind {
        0 => {
            let mut all = before.to_vec();
            apply_tokens(&mut all, toks);
            Block::Stored {
                data: all[before.len()..].to_vec(),
                pad,
            }
        }
        1 => Block::Fixed { toks: toks.to_vec() },
        _ => Block::Dyn {
            toks: toks.to_vec(),
            hdr: default_header(toks),
        },
    }
}

/// all splits of small token lists into <= 3 blocks (segments may be empty), all type
/// assignments, stored padding menu, final padding menu
pub fn e2_blockspace(ctx: &Ctx, name: &str, st: &mut Local, f: Sink) {
    if !ctx.engine_on(name) {
        return;
    }
    let r = |len: u16, dist: u16| Tok::Ref { len, dist, irr: false };
    let lists: Vec<Vec<Tok>> = vec![
        vec![],
        vec![Tok::Lit(b'a')],
        vec![Tok::Lit(b'a'), Tok::Lit(b'b'), Tok::Lit(b'a'), Tok::Lit(b'b'), Tok::Lit(b'c')],
        vec![Tok::Lit(b'a'), r(3, 1), Tok::Lit(b'b')],
        vec![Tok::Lit(b'a'), Tok::Lit(b'b'), r(3, 2), r(4, 5)],
        vec![Tok::Lit(b'a'), Tok::Lit(b'b'), Tok::Lit(b'c'), r(3, 3), Tok::Lit(b'a')],
    ];
    let pads: &[u8] = if ctx.quick() { &[0, 0x1f] } else { &[0, 1, 0x15, 0x1f] };
    let fpads: &[u8] = if ctx.quick() { &[0, 0x7f] } else { &[0, 1, 0x55, 0x7f] };
    let mut idx = 0u64;
    for (li, toks) in lists.iter().enumerate() {
        let n = toks.len();
        for nb in 1..=3usize {
            // cut points c1 <= c2 ... in 0..=n
            let mut cuts = vec![0usize; nb - 1];
            loop {
                // types
                let ntypes = 3usize.pow(nb as u32);
                for ty in 0..ntypes {
                    let kinds: Vec<u8> = (0..nb).map(|b| ((ty / 3usize.pow(b as u32)) % 3) as u8).collect();
                    let nstored = kinds.iter().filter(|&&k| k == 0).count();
                    let npadc = pads.len().pow(nstored as u32);
                    for pc in 0..npadc {
                        for &fp in fpads {
                            let i = idx;
                            idx += 1;
                            if ctx.sel.mine(i) {
                                let e = st.eng(name);
                                e.states += 1;
                                e.transitions += nb as u64;
                                if nb > 1 || nstored > 0 {
                                    e.nontrivial += 1;
                                }
                            }
                            if !ctx.take(name, i) {
                                continue;
                            }
                            let mut bounds = vec![0];
                            bounds.extend_from_slice(&cuts);
                            bounds.push(n);
                            let mut blocks = Vec::new();
                            let mut before: Vec<u8> = Vec::new();
                            let mut sc = 0;
                            let mut pcc = pc;
                            for b in 0..nb {
                                let seg = &toks[bounds[b]..bounds[b + 1]];
                                let pad = if kinds[b] == 0 {
                                    let p = pads[pcc % pads.len()];
                                    pcc /= pads.len();
                                    sc += 1;
                                    p
                                } else {
                                    0
                                };
                                blocks.push(seg_block(kinds[b], seg, &before, pad));
                                apply_tokens(&mut before, seg);
                            }
                            let _ = sc;
                            let s = Stream {
                                blocks,
                                final_pad: fp,
                            };
                            let bytes = serialise(&s);
                            let case = StreamCase {
                                stream_len: bytes.len(),
                                plain: Some(plaintext(&s)),
                                bytes,
                                descr: format!(
                                    "list{} cuts{:?} kinds{:?} padcombo{} fpad{:#x}",
                                    li, cuts, kinds, pc, fp
                                ),
                            };
                            deliver(ctx, name, st, i, case, f);
                        }
                    }
                }
                // next non-decreasing cut vector
                let mut k = cuts.len();
                loop {
                    if k == 0 {
                        break;
                    }
                    k -= 1;
                    if cuts[k] < n {
                        cuts[k] += 1;
                        let v = cuts[k];
                        for c in cuts.iter_mut().skip(k + 1) {
                            *c = v;
                        }
                        k = usize::MAX;
                        break;
                    }
                }
                if k != usize::MAX {
                    break;
                }
            }
        }
    }
    let e = st.eng(name);
    e.bound = format!(
        "6 token lists (plaintext <= 9) x all splits into <= 3 blocks (empty segments allowed) x all stored/fixed/dynamic assignments x {} stored-padding values per stored block x {} final-padding values",
        pads.len(),
        fpads.len()
    );
    e.exhaustive = true;
}

/// E2p: every padding pattern at every bit offset: a fixed-block prefix of k literals puts the
/// next block header at each bit offset; stored-block padding takes all 32 values, final padding all 128
pub fn e2_padspace(ctx: &Ctx, name: &str, st: &mut Local, f: Sink) {
    if !ctx.engine_on(name) {
        return;
    }
    let mut idx = 0u64;
    // literals 'a' (8 bits) and 0x90 (9 bits) let the prefix end at every offset mod 8
    for nine in 0..8usize {
        let mut pre: Vec<Tok> = vec![Tok::Lit(b'a')];
        for _ in 0..nine {
            pre.push(Tok::Lit(0x90));
        }
        // (a) stored block after the prefix, all pad values (up to 7 padding bits), then final fixed block
        for pad in 0..128u8 {
            for tail in 0..2 {
                let i = idx;
                idx += 1;
                if ctx.sel.mine(i) {
                    let e = st.eng(name);
                    e.states += 1;
                    e.transitions += 1;
                    if pad != 0 {
                        e.nontrivial += 1;
                    }
                }
                if !ctx.take(name, i) {
                    continue;
                }
                let mut blocks = vec![
                    Block::Fixed { toks: pre.clone() },
                    Block::Stored {
                        data: b"xyz".to_vec(),
                        pad,
                    },
                ];
                if tail == 1 {
                    blocks.push(Block::Fixed { toks: vec![Tok::Lit(b'q')] });
                }
                let s = Stream { blocks, final_pad: 0 };
                let bytes = serialise(&s);
                let case = StreamCase {
                    stream_len: bytes.len(),
                    plain: Some(plaintext(&s)),
                    bytes,
                    descr: format!("prefix 1+{}x9bit stored pad {:#x} tail {}", nine, pad, tail),
                };
                deliver(ctx, name, st, i, case, f);
            }
        }
        // (b) final padding, all 128 values
        for fp in 0..128u8 {
            let i = idx;
            idx += 1;
            if ctx.sel.mine(i) {
                let e = st.eng(name);
                e.states += 1;
                e.transitions += 1;
                if fp != 0 {
                    e.nontrivial += 1;
                }
            }
            if !ctx.take(name, i) {
                continue;
            }
            let s = Stream {
                blocks: vec![Block::Fixed { toks: pre.clone() }],
                final_pad: fp,
            };
            let bytes = serialise(&s);
            let case = StreamCase {
                stream_len: bytes.len(),
                plain: Some(plaintext(&s)),
                bytes,
                descr: format!("prefix 1+{}x9bit final pad {:#x}", nine, fp),
            };
            deliver(ctx, name, st, i, case, f);
        }
    }
    let e = st.eng(name);
    e.bound = "8 bit offsets x (128 stored-block padding values x {final, non-final} + 128 final padding values)".into();
    e.exhaustive = true;
}

// ---------------------------------------------------------------------------------------------
// E3 dynspace

/// all vectors of `k` code lengths (each 1..=maxl) with Kraft equality
pub fn complete_vectors(k: usize, maxl: u8) -> Vec<Vec<u8>> {
    let mut out = Vec::new();
    fn rec(k: usize, maxl: u8, cur: &mut Vec<u8>, left: u32, out: &mut Vec<Vec<u8>>) {
        // `left` = remaining Kraft budget scaled by 2^15
        if cur.len() == k {
            if left == 0 {
                out.push(cur.clone());
            }
            return;
        }
        let remaining = (k - cur.len()) as u32;
        for l in 1..=maxl {
            let c = 1u32 << (15 - l as u32);
            if c > left {
                continue;
            }
            // the rest must be able to use up the budget: each at most 2^14, at least 2^(15-maxl)
            let rest = left - c;
            if rest > (remaining - 1) * (1 << 14) || rest < (remaining - 1) * (1u32 << (15 - maxl as u32)) {
                continue;
            }
            cur.push(l);
            rec(k, maxl, cur, rest, out);
            cur.pop();
        }
    }
    if k >= 2 {
        rec(k, maxl, &mut Vec::new(), 1 << 15, &mut out);
    }
    out
}

fn dyn_case(toks: &[Tok], hdr: DynHeader, plain: &[u8], descr: String) -> Option<StreamCase> {
    if !header_covers(&hdr, toks) {
        return None;
    }
    let s = Stream {
        blocks: vec![Block::Dyn {
            toks: toks.to_vec(),
            hdr,
        }],
        final_pad: 0,
    };
    let bytes = serialise(&s);
    Some(StreamCase {
        stream_len: bytes.len(),
        plain: Some(plain.to_vec()),
        bytes,
        descr,
    })
}

/// alternatives for the run-length item at position `i` (each replaces items[i] by a short list)
fn rle_alternatives(items: &[(u8, u8)], i: usize) -> Vec<Vec<(u8, u8)>> {
    let (s, a) = items[i];
    let mut alts: Vec<Vec<(u8, u8)>> = Vec::new();
    let zero_run = |n: u8| -> Option<(u8, u8)> {
        match n {
            3..=10 => Some((17, n)),
            11..=138 => Some((18, n)),
            _ => None,
        }
    };
    match s {
        17 | 18 => {
            let n = a;
            // split into two zero runs
            for k in 3..n.saturating_sub(2) {
                if let (Some(x), Some(y)) = (zero_run(k), zero_run(n - k)) {
                    if k == 3 || k == 10 || k == 11 || n - k == 3 || n - k == 11 || k == n / 2 {
                        alts.push(vec![x, y]);
                    }
                }
            }
            // one literal zero then the rest of the run
            if let Some(y) = zero_run(n - 1) {
                alts.push(vec![(0, 0), y]);
                alts.push(vec![y, (0, 0)]);
            }
            // literal zeros only
            if n <= 6 {
                alts.push(vec![(0, 0); n as usize]);
            }
            // code 16 after a zero (repeat previous = 0)
            if (4..=7).contains(&n) {
                alts.push(vec![(0, 0), (16, n - 1)]);
            }
            // code 16 directly after a zero run (RFC 1951: repeats the previous length, i.e. 0)
            if n >= 6 {
                if let Some(x) = zero_run(n - 3) {
                    alts.push(vec![x, (16, 3)]);
                }
            }
            if n >= 9 {
                if let Some(x) = zero_run(n - 6) {
                    alts.push(vec![x, (16, 6)]);
                }
            }
            // 17 used where 18 is possible and vice versa is impossible by range; 18 split in 17+17
            if n == 11 {
                alts.push(vec![(17, 8), (17, 3)]);
            }
        }
        16 => {
            let n = a;
            let prev = {
                // the length being repeated
                let mut p = 0;
                for &(s2, _) in items[..i].iter().rev() {
                    if s2 < 16 {
                        p = s2;
                        break;
                    }
                }
                p
            };
            alts.push(vec![(prev, 0); n as usize]);
            if n >= 4 {
                alts.push(vec![(16, n - 1), (prev, 0)]);
                alts.push(vec![(prev, 0), (16, n - 1)]);
            }
            if n == 6 {
                alts.push(vec![(16, 3), (16, 3)]);
            }
        }
        _ => {}
    }
    alts
}

fn with_items(base: &DynHeader, items: Vec<(u8, u8)>) -> DynHeader {
    let clc = clc_for_items(&items);
    DynHeader {
        hlit: base.hlit,
        hdist: base.hdist,
        hclen: min_hclen(&clc),
        clc,
        items,
    }
}

pub fn e3_dynspace(ctx: &Ctx, name: &str, st: &mut Local, f: Sink) {
    if !ctx.engine_on(name) {
        return;
    }
    let r = |len: u16, dist: u16| Tok::Ref { len, dist, irr: false };
    let lists: Vec<Vec<Tok>> = vec![
        vec![Tok::Lit(b'a')],
        vec![Tok::Lit(b'a'), Tok::Lit(b'b'), Tok::Lit(b'a')],
        vec![Tok::Lit(b'a'), r(3, 1), Tok::Lit(b'b'), r(4, 2)],
        vec![Tok::Lit(b'a'), Tok::Lit(b'b'), Tok::Lit(b'c'), r(3, 3), r(258, 1), Tok::Lit(0xff)],
        // length 258 in both codings (symbol 284 + 31 and symbol 285) inside one dynamic block
        vec![Tok::Lit(b'a'), Tok::Ref { len: 258, dist: 1, irr: true }, Tok::Lit(b'b'), r(258, 2), Tok::Ref { len: 258, dist: 2, irr: true }, r(258, 2)],
        // two distance symbols in use, both >= 1 (the distance lengths start with a zero)
        vec![Tok::Lit(b'a'), Tok::Lit(b'b'), Tok::Lit(b'c'), Tok::Lit(b'd'), r(4, 2), r(5, 4), r(3, 2)],
        // exactly one distance symbol in use (symbols 1, 2, 3 and 0)
        vec![Tok::Lit(b'a'), Tok::Lit(b'b'), r(6, 2)],
        vec![Tok::Lit(b'a'), Tok::Lit(b'b'), Tok::Lit(b'c'), r(9, 3), r(3, 3)],
        vec![Tok::Lit(b'a'), Tok::Lit(b'b'), Tok::Lit(b'c'), Tok::Lit(b'd'), r(8, 4)],
        vec![Tok::Lit(b'a'), r(5, 1)],
        // every literal once: code lengths 8 and 9 only
        (0..=255u8).map(Tok::Lit).collect(),
        // 40 literals with skewed frequencies: code lengths 1..=10
        (0..40u32).flat_map(|i| std::iter::repeat(Tok::Lit(i as u8 * 3)).take(1 + (1usize << (i / 4)) / 2)).collect(),
    ];
    let mut idx = 0u64;
    let mut emit = |st: &mut Local, idx: &mut u64, nontrivial: bool, mk: &mut dyn FnMut() -> Option<StreamCase>| {
        let i = *idx;
        *idx += 1;
        if ctx.sel.mine(i) {
            let e = st.eng(name);
            e.states += 1;
            e.transitions += 1;
            if nontrivial {
                e.nontrivial += 1;
            }
        }
        if ctx.take(name, i) {
            if let Some(case) = mk() {
                deliver(ctx, name, st, i, case, f);
            } else {
                st.eng(name).outcomes.entry("model:header-does-not-cover-tokens".into()).and_modify(|c| *c += 1).or_insert(1);
            }
        }
    };
    for (li, toks) in lists.iter().enumerate() {
        let mut plain = Vec::new();
        apply_tokens(&mut plain, toks);
        let (ll, dl) = default_lengths(toks);
        let base = header_from_lengths(&ll, &dl);

        // (a) HLIT / HDIST / HCLEN slack (trailing zero lengths, unused clc entries)
        let hlits: Vec<usize> = {
            let mut v = vec![ll.len(), ll.len() + 1, 286, 287, 288];
            v.dedup();
            v
        };
        let hdists: Vec<usize> = {
            let mut v = vec![dl.len(), dl.len() + 1, 30, 31, 32];
            v.dedup();
            v
        };
        for &hl in &hlits {
            for &hd in &hdists {
                let mut l2 = ll.clone();
                l2.resize(hl, 0);
                let mut d2 = dl.clone();
                d2.resize(hd, 0);
                let h = header_from_lengths(&l2, &d2);
                for hc in h.hclen..=19 {
                    let mut hh = h.clone();
                    hh.hclen = hc;
                    let zlib_ok = hl <= 286 && hd <= 30;
                    emit(st, &mut idx, hl != ll.len() || hd != dl.len() || hc != h.hclen, &mut || {
                        let mut c = dyn_case(toks, hh.clone(), &plain, format!("list{} hlit{} hdist{} hclen{}", li, hl, hd, hc))?;
                        if !zlib_ok {
                            // zlib rejects HLIT > 286 / HDIST > 30: the model cannot vouch for these
                            c.plain = None;
                        }
                        Some(c)
                    });
                }
            }
        }

        // (b) all complete code-length vectors for the used literal/length symbols and distance symbols
        let used_l: Vec<usize> = (0..ll.len()).filter(|&i| ll[i] != 0).collect();
        let used_d: Vec<usize> = (0..dl.len()).filter(|&i| dl[i] != 0).collect();
        let maxl = if ctx.quick() { 5 } else { 8 };
        if used_l.len() <= 7 {
            for v in complete_vectors(used_l.len(), maxl) {
                let mut l2 = vec![0u8; ll.len()];
                for (k, &s) in used_l.iter().enumerate() {
                    l2[s] = v[k];
                }
                emit(st, &mut idx, true, &mut || {
                    dyn_case(toks, header_from_lengths(&l2, &dl), &plain, format!("list{} litlen-lengths {:?}", li, v))
                });
            }
        }
        // literal/length symbols 286 / 287 (HLIT 287, 288) carrying code lengths: never usable, rejected by zlib,
        // accepted by a reader that takes the 5-bit HLIT at face value
        if used_l.len() <= 5 {
            for extra_syms in [vec![286usize], vec![287], vec![286, 287]] {
                let mut syms = used_l.clone();
                syms.extend(extra_syms.iter().copied());
                for v in complete_vectors(syms.len(), maxl.min(5)) {
                    let mut l2 = vec![0u8; syms.last().unwrap() + 1];
                    for (k, &s) in syms.iter().enumerate() {
                        l2[s] = v[k];
                    }
                    emit(st, &mut idx, true, &mut || {
                        let mut c = dyn_case(toks, header_from_lengths(&l2, &dl), &plain, format!("list{} litlen-lengths {:?} over {:?} (symbols >= 286 coded)", li, v, syms))?;
                        c.plain = None;
                        Some(c)
                    });
                }
            }
        }
        for extra in 0..=2usize {
            // distance alphabets of 2, 3, 4 used symbols (extra unused-but-coded symbols)
            let mut syms = used_d.clone();
            let mut s = 0;
            while syms.len() < used_d.len() + extra {
                if !syms.contains(&s) {
                    syms.push(s);
                }
                s += 1;
            }
            syms.sort();
            for v in complete_vectors(syms.len(), maxl.min(6)) {
                let mut d2 = vec![0u8; (*syms.last().unwrap() + 1).max(dl.len())];
                for (k, &s) in syms.iter().enumerate() {
                    d2[s] = v[k];
                }
                emit(st, &mut idx, true, &mut || {
                    dyn_case(toks, header_from_lengths(&ll, &d2), &plain, format!("list{} dist-lengths {:?} over {:?}", li, v, syms))
                });
            }
        }
        // distance symbols 30 / 31 (HDIST 31, 32) carrying code lengths: never usable, rejected by zlib, accepted
        // by a reader that takes the RFC's 5-bit HDIST at face value; the model cannot vouch for the plaintext
        for extra_syms in [vec![30usize], vec![31], vec![30, 31]] {
            let mut syms = used_d.clone();
            syms.extend(extra_syms.iter().copied());
            for v in complete_vectors(syms.len(), maxl.min(5)) {
                let mut d2 = vec![0u8; syms.last().unwrap() + 1];
                for (k, &s) in syms.iter().enumerate() {
                    d2[s] = v[k];
                }
                emit(st, &mut idx, true, &mut || {
                    let mut c = dyn_case(toks, header_from_lengths(&ll, &d2), &plain, format!("list{} dist-lengths {:?} over {:?} (symbols >= 30 coded)", li, v, syms))?;
                    c.plain = None;
                    Some(c)
                });
            }
        }
        // (c) code-length-code shapes: all complete vectors (lengths <= 7) over the clc symbols in use
        let used_c: Vec<usize> = (0..19).filter(|&i| base.clc[i] != 0).collect();
        if used_c.len() <= 6 {
            for v in complete_vectors(used_c.len(), 7) {
                let mut clc = [0u8; 19];
                for (k, &s) in used_c.iter().enumerate() {
                    clc[s] = v[k];
                }
                let mut h = base.clone();
                h.clc = clc;
                h.hclen = min_hclen(&clc);
                emit(st, &mut idx, true, &mut || {
                    dyn_case(toks, h.clone(), &plain, format!("list{} clc-lengths {:?} over {:?}", li, v, used_c))
                });
            }
        }

        // (d) run-length alternatives: every single and every pair
        let n = base.items.len();
        let alts: Vec<Vec<Vec<(u8, u8)>>> = (0..n).map(|i| rle_alternatives(&base.items, i)).collect();
        for i in 0..n {
            for (ai, a) in alts[i].iter().enumerate() {
                let mut items = base.items[..i].to_vec();
                items.extend_from_slice(a);
                items.extend_from_slice(&base.items[i + 1..]);
                let h = with_items(&base, items);
                emit(st, &mut idx, true, &mut || {
                    dyn_case(toks, h.clone(), &plain, format!("list{} rle item{} alt{}", li, i, ai))
                });
                for j in i + 1..n {
                    for (bi, b) in alts[j].iter().enumerate() {
                        let mut items = base.items[..i].to_vec();
                        items.extend_from_slice(a);
                        items.extend_from_slice(&base.items[i + 1..j]);
                        items.extend_from_slice(b);
                        items.extend_from_slice(&base.items[j + 1..]);
                        let h = with_items(&base, items);
                        emit(st, &mut idx, true, &mut || {
                            dyn_case(toks, h.clone(), &plain, format!("list{} rle item{} alt{} + item{} alt{}", li, i, ai, j, bi))
                        });
                    }
                }
            }
        }
        // (g) incomplete distance code: a single code of length 1 (zlib accepts this; real compressors
        // emit it), for token lists that use exactly one distance symbol; and no distance code at all
        // for lists without references
        {
            let mut df = vec![0u32; 30];
            for t in toks {
                if let Tok::Ref { dist, .. } = *t {
                    df[dist_sym(dist).0] += 1;
                }
            }
            let used: Vec<usize> = (0..30).filter(|&i| df[i] > 0).collect();
            if used.len() == 1 {
                for slack in 0..2 {
                    let mut d2 = vec![0u8; used[0] + 1 + slack];
                    d2[used[0]] = 1;
                    emit(st, &mut idx, true, &mut || dyn_case(toks, header_from_lengths(&ll, &d2), &plain, format!("list{} single distance code at symbol {} hdist {}", li, used[0], d2.len())));
                }
            }
            if used.is_empty() {
                emit(st, &mut idx, true, &mut || dyn_case(toks, header_from_lengths(&ll, &[0]), &plain, format!("list{} no distance code (HDIST=1, length 0)", li)));
                emit(st, &mut idx, true, &mut || dyn_case(toks, header_from_lengths(&ll, &[1]), &plain, format!("list{} one unused distance code of length 1", li)));
            }
        }

        // (i) a zero run that crosses the boundary between the literal/length and the distance lengths:
        // HLIT slack (trailing zeros) in front of distance lengths that start with zeros
        {
            let lead_d = dl.iter().take_while(|&&l| l == 0).count();
            if lead_d >= 1 {
                for z in [1usize, 3, 12] {
                    if ll.len() + z > 286 {
                        continue;
                    }
                    let mut l2 = ll.clone();
                    l2.resize(ll.len() + z, 0);
                    let h = header_from_lengths(&l2, &dl);
                    emit(st, &mut idx, true, &mut || dyn_case(toks, h.clone(), &plain, format!("list{} zero run of {} crossing the HLIT/HDIST boundary", li, z + lead_d)));
                }
            }
        }

        // (h) the header starts with "repeat previous" (code 16) although there is no previous length:
        // RFC 1951 leaves it undefined, zlib rejects it, the subject takes the previous length as 0
        {
            let lead = ll.iter().take_while(|&&l| l == 0).count();
            if lead >= 3 {
                for first in [3usize, 6] {
                    if first > lead {
                        continue;
                    }
                    let mut items: Vec<(u8, u8)> = vec![(16, first as u8)];
                    let mut rest = ll[first..].to_vec();
                    rest.extend_from_slice(&dl);
                    items.extend(default_rle(&rest));
                    let h = with_items(&base, items);
                    emit(st, &mut idx, true, &mut || {
                        let mut c = dyn_case(toks, h.clone(), &plain, format!("list{} header starts with repeat-previous x{}", li, first))?;
                        c.plain = None;
                        Some(c)
                    });
                }
            }
            // only repeats: 16 x6 as often as it fits, then the real lengths (all zero prefix)
            if lead >= 12 {
                let k = lead / 6;
                let mut items: Vec<(u8, u8)> = vec![(16, 6); k];
                let mut rest = ll[k * 6..].to_vec();
                rest.extend_from_slice(&dl);
                items.extend(default_rle(&rest));
                let h = with_items(&base, items);
                emit(st, &mut idx, true, &mut || {
                    let mut c = dyn_case(toks, h.clone(), &plain, format!("list{} header starts with {} repeat-previous items", li, k))?;
                    c.plain = None;
                    Some(c)
                });
            }
        }

        // (f) malformed endings: the last run-length item overshoots HLIT+HDIST (invalid per RFC 1951;
        // zlib rejects it; the subject must answer Ok or Err). The codes themselves stay complete.
        for (padded, repeat) in [(true, false), (false, true)] {
            let mut d2 = dl.clone();
            if padded {
                // trailing zero lengths so that the header ends with a zero run
                d2.resize(dl.len() + 5, 0);
            } else if repeat {
                // four distance codes of length 2: the header ends with "2, repeat 3"
                d2 = vec![2, 2, 2, 2];
            }
            let h = header_from_lengths(&ll, &d2);
            if !header_covers(&h, toks) {
                continue;
            }
            let last = *h.items.last().unwrap();
            let maxrun = match last.0 { 16 => 6, 17 => 10, 18 => 138, _ => 0 };
            for extra in [1u8, 2, 3, 200] {
                let n = (last.1 as u32 + extra as u32).min(maxrun as u32) as u8;
                if maxrun == 0 || n <= last.1 {
                    continue;
                }
                let mut hh = h.clone();
                let k = hh.items.len() - 1;
                hh.items[k].1 = n;
                emit(st, &mut idx, true, &mut || {
                    let mut c = dyn_case(toks, hh.clone(), &plain, format!("list{} last run {:?} overshoots to {}", li, last, n))?;
                    c.plain = None;
                    Some(c)
                });
            }
        }

        // (e) coarse run-length policies: no runs at all, no zero runs, no repeat runs
        let mut all = ll.clone();
        all.extend_from_slice(&dl);
        for policy in 0..3 {
            let items: Vec<(u8, u8)> = match policy {
                0 => all.iter().map(|&l| (l, 0)).collect(),
                1 => default_rle(&all).into_iter().flat_map(|(s, a)| if s >= 17 { vec![(0u8, 0u8); a as usize] } else { vec![(s, a)] }).collect(),
                _ => {
                    let mut out: Vec<(u8, u8)> = Vec::new();
                    for (s, a) in default_rle(&all) {
                        if s == 16 {
                            let p = out.iter().rev().find(|x| x.0 < 16).map(|x| x.0).unwrap_or(0);
                            for _ in 0..a {
                                out.push((p, 0));
                            }
                        } else {
                            out.push((s, a));
                        }
                    }
                    out
                }
            };
            let h = with_items(&base, items);
            emit(st, &mut idx, true, &mut || dyn_case(toks, h.clone(), &plain, format!("list{} rle policy {}", li, policy)));
        }
    }
    let e = st.eng(name);
    e.bound = "12 token lists x {zero run crossing the HLIT/HDIST boundary; header starting with repeat-previous (code 16); incomplete distance codes (single code of length 1, none); last run overshooting HLIT+HDIST (malformed); coarse run-length policies (no runs, no zero runs, no repeat runs); HLIT,HDIST 5-value menus x HCLEN min..19; all complete length vectors over the used lit/len symbols, over 2-4 distance symbols, over the used code-length symbols; default RLE with every single and every pair of alternative run choices}".into();
    e.exhaustive = true;
}

// ---------------------------------------------------------------------------------------------
// E4 pairspace

/// 32 KiB prefix in which 3-byte substrings rarely repeat
pub fn e4_prefix() -> Vec<u8> {
    let mut v = Vec::with_capacity(32768);
    let mut x: u32 = 0x1234_5678;
    for _ in 0..32768 {
        x = x.wrapping_mul(1664525).wrapping_add(1013904223);
        v.push((x >> 24) as u8);
    }
    v
}

/// distances explored in the quick tier: 1..=300, every distance-code boundary +-1, 32768-262+-2, 32768
pub fn e4_quick_dists() -> Vec<u16> {
    let mut v: Vec<u32> = (1..=300).collect();
    for &b in DIST_BASE.iter() {
        for d in [b as i64 - 1, b as i64, b as i64 + 1] {
            if (1..=32768).contains(&d) {
                v.push(d as u32);
            }
        }
    }
    for d in 32768 - 264..=32768 - 260 {
        v.push(d);
    }
    v.push(32767);
    v.push(32768);
    // largest distance zlib uses with a 2^w window (2^w - 262) and its neighbours
    for w in 9..=15u32 {
        for d in [(1u32 << w) - 263, (1 << w) - 262, (1 << w) - 261] {
            v.push(d);
        }
    }
    v.sort();
    v.dedup();
    v.into_iter().map(|d| d as u16).collect()
}

/// maximally skewed complete code over the `used` symbols: frequencies grow geometrically with the
/// rotated rank, so the symbols at the tail of the rotation get the longest codes (up to the limit)
pub fn skewed_lengths(total: usize, used: &[usize], rot: usize, limit: u8) -> Vec<u8> {
    let mut freq = vec![0u32; total];
    let n = used.len();
    for (k, &sym) in used.iter().enumerate() {
        let rank = (k + rot) % n;
        freq[sym] = 1u32 << (rank.min(30));
    }
    huff_lengths(&freq, limit)
}

pub fn e4_pairspace(ctx: &Ctx, name: &str, dists: &[u16], st: &mut Local, f: Sink) {
    if !ctx.engine_on(name) {
        return;
    }
    let prefix = e4_prefix();
    let mut idx = 0u64;
    for &dist in dists {
        for variant in 0..5 {
            // 0: fixed code, regular 258; 1: fixed code, 258 as 284+31; 2: dynamic code, both 258 codings;
            // 3, 4: dynamic codes that are as skewed as possible (15-bit codes for the distance symbol
            // in use and, in two rotations, for the length symbols), both 258 codings
            let i = idx;
            idx += 1;
            if ctx.sel.mine(i) {
                let e = st.eng(name);
                e.states += 256 + (variant >= 2) as u64;
                e.transitions += 256 + (variant >= 2) as u64;
                e.nontrivial += 1;
            }
            if !ctx.take(name, i) {
                continue;
            }
            let mut toks: Vec<Tok> = Vec::with_capacity(258);
            for len in 3..=258u16 {
                toks.push(Tok::Ref { len, dist, irr: variant == 1 && len == 258 });
            }
            if variant >= 2 {
                toks.push(Tok::Ref { len: 258, dist, irr: true });
            }
            let blk = if variant == 2 {
                Block::Dyn { hdr: default_header(&toks), toks }
            } else if variant >= 3 {
                // all 29 length symbols + EOB coded; all 30 distance symbols coded, the one in use last
                let used_l: Vec<usize> = (256..286).collect();
                let ll = skewed_lengths(286, &used_l, if variant == 3 { 0 } else { 15 }, 15);
                let ds = dist_sym(dist).0;
                let mut used_d: Vec<usize> = (0..30).filter(|&x| x != ds).collect();
                used_d.insert(0, ds);
                let dl = skewed_lengths(30, &used_d, 0, 15);
                Block::Dyn { hdr: header_from_lengths(&ll, &dl), toks }
            } else {
                Block::Fixed { toks }
            };
            let s = Stream {
                blocks: vec![Block::Stored { data: prefix.clone(), pad: 0 }, blk],
                final_pad: 0,
            };
            let bytes = serialise(&s);
            let case = StreamCase {
                stream_len: bytes.len(),
                bytes,
                plain: Some(plaintext(&s)),
                descr: format!("dist {} variant {}", dist, variant),
            };
            deliver(ctx, name, st, i, case, f);
        }
    }
    let e = st.eng(name);
    e.bound = format!(
        "{} distances x every length 3..258 x {{fixed code regular 258, fixed code 258 as 284+31, dynamic code with both, two maximally skewed dynamic codes (15-bit codes for the distance symbol and for the length symbols)}}; 256-257 references per stream behind a 32 KiB stored prefix",
        dists.len()
    );
    e.exhaustive = dists.len() == 32768;
}

// ---------------------------------------------------------------------------------------------
// E5 devspace

/// deterministic plaintext family (fixed recurrences; identical in every run)
pub fn text_family(kind: usize, len: usize) -> Vec<u8> {
    let mut x: u32 = 0x9E37_79B9 ^ (kind as u32).wrapping_mul(0x85EB_CA6B);
    let mut next = move || {
        x = x.wrapping_mul(1103515245).wrapping_add(12345);
        (x >> 16) & 0x7fff
    };
    let mut v = Vec::with_capacity(len + 32);
    match kind {
        0 => {
            // two letters
            while v.len() < len {
                v.push(if next() % 3 == 0 { b'b' } else { b'a' });
            }
        }
        1 => {
            // text-like: words from a small vocabulary
            let words: [&[u8]; 16] = [
                b"the", b"quick", b"brown", b"fox", b"jumps", b"over", b"lazy", b"dog", b"and", b"then",
                b"compression", b"deflate", b"stream", b"window", b"a", b"of",
            ];
            while v.len() < len {
                v.extend_from_slice(words[(next() % 16) as usize]);
                v.push(if next() % 11 == 0 { b'\n' } else { b' ' });
            }
        }
        2 => {
            // binary records: 16-byte records with a counter and a few varying fields
            let mut c: u32 = 0;
            while v.len() < len {
                v.extend_from_slice(&c.to_le_bytes());
                v.extend_from_slice(&[0, 0, 1, 0]);
                v.push((next() % 4) as u8);
                v.push((next() % 256) as u8);
                v.extend_from_slice(&[0xff, 0xff, 0, 0, 0, 0]);
                c += 1;
            }
        }
        3 => {
            // long runs
            while v.len() < len {
                let b = b'0' + (next() % 4) as u8;
                let n = 1 + (next() % 600) as usize;
                for _ in 0..n {
                    v.push(b);
                }
            }
        }
        4 => {
            // incompressible
            while v.len() < len {
                v.push((next() >> 3) as u8);
            }
        }
        5 => {
            // text with long-distance repeats
            let base = text_family(1, 700);
            while v.len() < len {
                let o = (next() as usize * 7) % 600;
                let n = 20 + (next() as usize % 80);
                v.extend_from_slice(&base[o..o + n]);
                v.push((next() % 256) as u8);
            }
        }
        6 => {
            // four letters, markov-ish
            let mut p = 0u32;
            while v.len() < len {
                let r = next();
                p = if r % 4 != 0 { (p + 1) % 4 } else { r % 4 };
                v.push(b"acgt"[p as usize]);
            }
        }
        8 => {
            // document with large repeated sections: later parts copy long segments (300-2000 bytes)
            // of earlier parts with small edits, so matches of length 258 are later referenced inside
            let mut seedtxt = text_family(1, 3000);
            seedtxt.extend_from_slice(&text_family(2, 1500));
            v.extend_from_slice(&seedtxt);
            while v.len() < len {
                let n = 300 + (next() as usize % 1700);
                let o = (next() as usize * 13) % (v.len() - n.min(v.len() - 1));
                let n = n.min(v.len() - o);
                let seg: Vec<u8> = v[o..o + n].to_vec();
                v.extend_from_slice(&seg);
                // a small edit
                let e = v.len() - 1 - (next() as usize % n.max(1));
                v[e] = v[e].wrapping_add(1 + (next() % 5) as u8);
                if next() % 3 == 0 {
                    v.extend_from_slice(&text_family(1, 40 + (next() % 200) as usize));
                }
            }
        }
        9 => {
            // sandwich: text, incompressible noise (forces stored blocks in the middle of a stream), text
            let t = len / 4;
            v.extend_from_slice(&text_family(1, t));
            v.extend_from_slice(&text_family(4, len - 2 * t));
            let again = text_family(1, 2 * t);
            v.extend_from_slice(&again[t / 2..t / 2 + t]);
        }
        11 => {
            // text, incompressible noise (a stored block mid-stream), then text that quotes pieces of the noise
            let t = len / 4;
            v.extend_from_slice(&text_family(1, t));
            let noise = text_family(4, len / 2);
            v.extend_from_slice(&noise);
            let words = text_family(1, 2 * t);
            let mut w = 0;
            while v.len() < len {
                let n = 8 + (next() as usize % 40);
                let o = (next() as usize * 31) % (noise.len() - n);
                v.extend_from_slice(&noise[o..o + n]);
                let m = 10 + (next() as usize % 30);
                v.extend_from_slice(&words[w % t..w % t + m]);
                w += m;
            }
        }
        12 => {
            // self-similar 4-letter text: short stretches of itself repeated with single-letter changes,
            // now and then a long repeat: most positions have many earlier candidates of different lengths
            for _ in 0..64 {
                v.push(b"acgt"[(next() % 4) as usize]);
            }
            while v.len() < len {
                let long = v.len() > 4000 && next() % 400 == 0;
                let l = if long { 300 + (next() as usize % 400) } else { 6 + (next() as usize % 30) };
                let l = l.min(v.len() - 1);
                let back = (next() as usize % 6000).min(v.len() - l);
                let start = v.len() - l - back;
                for i in 0..l {
                    let b = v[start + i];
                    v.push(b);
                }
                v.push(b"acgt"[(next() % 4) as usize]);
            }
        }
        13 => {
            // exact Fibonacci byte frequencies 1, 2, 3, 5, ..., 4181 (18 symbols, 10944 bytes) per section:
            // the unrestricted Huffman tree of such a block is 17 deep, so the length-limiting paths
            // (15-bit limit) of the Huffman length calculator and the tree predictor run
            let mut counts: Vec<usize> = vec![1, 2];
            while counts.len() < 18 {
                let n = counts.len();
                counts.push(counts[n - 1] + counts[n - 2]);
            }
            let mut section = 0u8;
            while v.len() < len {
                let mut left = counts.clone();
                let mut remaining: usize = left.iter().sum();
                while remaining > 0 {
                    let mut pick = (next() as usize * 7919 + remaining) % remaining;
                    for (sym, l) in left.iter_mut().enumerate() {
                        if pick < *l {
                            *l -= 1;
                            remaining -= 1;
                            v.push(0x30 + section * 20 + sym as u8);
                            break;
                        }
                        pick -= *l;
                    }
                }
                section = (section + 1) % 8;
            }
        }
        14 => {
            // more than a window of text, an incompressible blob, the same blob again (a stored block deep in
            // the stream that is then referenced from the following window), text
            let blob = text_family(4, (len / 6).max(16));
            let t1 = (len - 2 * blob.len()) * 3 / 4;
            v.extend_from_slice(&text_family(1, t1));
            v.extend_from_slice(&blob);
            v.extend_from_slice(&blob);
            let rest = len.saturating_sub(v.len());
            v.extend_from_slice(&text_family(5, rest));
        }
        15 => {
            // bitmap-like: 300-byte rows of a few palette indices in long runs whose edges move a little from
            // row to row (runs of every length, each a little longer or shorter than the one above it)
            let w = 300usize;
            let mut edges: Vec<usize> = vec![40, 90, 91, 150, 220, 260];
            while v.len() < len {
                let mut col = 0u8;
                let mut e = 0;
                for x in 0..w {
                    while e < edges.len() && edges[e] <= x {
                        e += 1;
                        col = (col + 1) % 5;
                    }
                    v.push(col * 17);
                }
                for ed in edges.iter_mut() {
                    let r = next() % 7;
                    if r == 0 && *ed > 2 {
                        *ed -= 2;
                    } else if r == 1 && *ed + 3 < w {
                        *ed += 3;
                    } else if r == 2 && *ed > 1 {
                        *ed -= 1;
                    }
                }
                edges.sort();
            }
        }
        16 => {
            // short runs (1..=40) of six byte values, a little noise, now and then a repeated passage
            while v.len() < len {
                let b = (next() % 6) as u8;
                let l = 1 + (next() % 40) as usize;
                for _ in 0..l {
                    v.push(b);
                }
                if next() % 4 == 0 {
                    for _ in 0..next() % 6 {
                        v.push((next() % 256) as u8);
                    }
                }
                if v.len() > 2000 && next() % 50 == 0 {
                    let l = (20 + (next() % 700) as usize).min(v.len() - 1);
                    let start = (next() as usize * 37) % (v.len() - l);
                    let piece: Vec<u8> = v[start..start + l].to_vec();
                    v.extend_from_slice(&piece);
                }
            }
        }
        17 => {
            // 8 bit image, 300 pixels wide, made of overlapping single-colour rectangles
            let w = 300usize;
            let h = (len + w - 1) / w;
            let mut img = vec![0u8; w * h];
            for _ in 0..(w * h / 400) {
                let x0 = (next() as usize * 3) % w;
                let y0 = (next() as usize * 5) % h;
                let rw = 1 + (next() % 60) as usize;
                let rh = 1 + (next() % 30) as usize;
                let c = (next() % 12) as u8;
                for y in y0..(y0 + rh).min(h) {
                    for x in x0..(x0 + rw).min(w) {
                        img[y * w + x] = c;
                    }
                }
            }
            v = img;
        }
        10 => {
            // periodic data with periods 1..=8 (single distance code per block for some compressors)
            let mut period = 1;
            while v.len() < len {
                let n = (len / 8).max(period * 4);
                for i in 0..n {
                    v.push(b"abcdefgh"[i % period]);
                }
                period = period % 8 + 1;
            }
        }
        _ => {
            // mixed: runs, text and noise
            while v.len() < len {
                let k = (next() % 3) as usize;
                let part = text_family([3, 1, 4][k], 200 + (next() % 400) as usize);
                v.extend_from_slice(&part);
            }
        }
    }
    v.truncate(len);
    v
}

fn tok_positions(toks: &[Tok]) -> Vec<usize> {
    let mut pos = Vec::with_capacity(toks.len());
    let mut p = 0;
    for t in toks {
        pos.push(p);
        p += match t {
            Tok::Lit(_) => 1,
            Tok::Ref { len, .. } => *len as usize,
        };
    }
    pos
}

/// retokenise the tail of `p` starting at `start` (history available for matches)
fn lz_tail(p: &[u8], start: usize, cfg: &LzCfg) -> Vec<Tok> {
    // simple and obviously right: tokenise the whole text with a cut: tokens before `start`
    // are irrelevant, so run the tokeniser on the full text but only keep tokens from `start`;
    // to force a token boundary at `start` tokenise p[..start] and p[start..] with history.
    let mut toks = Vec::new();
    let mut pos = start;
    while pos < p.len() {
        let maxl = (p.len() - pos).min(258);
        let mut best: Option<(usize, usize)> = None;
        if maxl >= 3 {
            let lo = pos.saturating_sub(cfg.window);
            let mut chain = 0;
            let mut c = pos;
            while c > lo && chain < cfg.max_chain * 8 {
                c -= 1;
                if p[c] == p[pos] && p[c + 1] == p[pos + 1] && p[c + 2] == p[pos + 2] {
                    chain += 8;
                    let mut l = 3;
                    while l < maxl && p[c + l] == p[pos + l] {
                        l += 1;
                    }
                    if best.map_or(true, |(bl, _)| l > bl) {
                        best = Some((l, pos - c));
                        if l >= cfg.nice {
                            break;
                        }
                    }
                } else {
                    chain += 1;
                }
            }
        }
        match best {
            Some((l, d)) => {
                toks.push(Tok::Ref { len: l as u16, dist: d as u16, irr: false });
                pos += l;
            }
            None => {
                toks.push(Tok::Lit(p[pos]));
                pos += 1;
            }
        }
    }
    toks
}

/// alternatives for token `i` (a reference) of the default tokenisation: each is a replacement
/// token; the tail after it is retokenised
fn deviations(p: &[u8], pos: usize, t: Tok, window: usize) -> Vec<Tok> {
    let mut out = Vec::new();
    if let Tok::Ref { len, dist, .. } = t {
        out.push(Tok::Lit(p[pos]));
        for l in 3..len {
            // every shorter length
            if len <= 12 || l <= 5 || l + 2 >= len || l == len / 2 {
                out.push(Tok::Ref { len: l, dist, irr: false });
            }
        }
        // farther candidates with the same length
        let mut found = 0;
        let mut far: Option<u16> = None;
        let lo = pos.saturating_sub(window);
        let mut c = pos - dist as usize;
        while c > lo {
            c -= 1;
            if p[c..c + len as usize] == p[pos..pos + len as usize] {
                let d = (pos - c) as u16;
                if found < 4 {
                    out.push(Tok::Ref { len, dist: d, irr: false });
                }
                found += 1;
                far = Some(d);
            }
        }
        if let Some(d) = far {
            if found > 4 {
                out.push(Tok::Ref { len, dist: d, irr: false });
            }
        }
        if len == 258 {
            out.push(Tok::Ref { len, dist, irr: true });
        }
    }
    out
}

fn stream_of(blocks_toks: &[Vec<Tok>], dynamic: bool) -> Stream {
    Stream {
        blocks: blocks_toks
            .iter()
            .map(|t| {
                if dynamic {
                    Block::Dyn { toks: t.clone(), hdr: default_header(t) }
                } else {
                    Block::Fixed { toks: t.clone() }
                }
            })
            .collect(),
        final_pad: 0,
    }
}

pub struct DevSpec {
    pub kind: usize,
    pub len: usize,
    pub cfg: LzCfg,
    pub dynamic: bool,
    /// maximum number of deviations (1 or 2)
    pub d: usize,
}

pub fn e5_devspace(ctx: &Ctx, name: &str, specs: &[DevSpec], st: &mut Local, f: Sink) {
    if !ctx.engine_on(name) {
        return;
    }
    let mut idx = 0u64;
    for (si, sp) in specs.iter().enumerate() {
        let p = text_family(sp.kind, sp.len);
        let base = lz_tokens(&p, &sp.cfg);
        let pos = tok_positions(&base);
        let mut emit = |st: &mut Local, idx: &mut u64, ndev: usize, mk: &mut dyn FnMut() -> (Vec<Vec<Tok>>, String)| {
            let i = *idx;
            *idx += 1;
            if ctx.sel.mine(i) {
                let e = st.eng(name);
                e.states += 1;
                e.transitions += 1;
                if ndev > 0 {
                    e.nontrivial += 1;
                }
            }
            if ctx.take(name, i) {
                let (blocks, descr) = mk();
                let s = stream_of(&blocks, sp.dynamic);
                let bytes = serialise(&s);
                let case = StreamCase {
                    stream_len: bytes.len(),
                    plain: Some(p.clone()),
                    bytes,
                    descr,
                };
                deliver(ctx, name, st, i, case, f);
            }
        };
        // 0 deviations
        emit(st, &mut idx, 0, &mut || (vec![base.clone()], format!("spec{} default", si)));
        // 1 deviation at every token position
        for ti in 0..base.len() {
            // block split at this token
            if ti > 0 {
                emit(st, &mut idx, 1, &mut || {
                    (vec![base[..ti].to_vec(), base[ti..].to_vec()], format!("spec{} split@{}", si, ti))
                });
            }
            let devs = deviations(&p, pos[ti], base[ti], sp.cfg.window);
            for (di, dv) in devs.iter().enumerate() {
                let adv = match dv {
                    Tok::Lit(_) => 1,
                    Tok::Ref { len, .. } => *len as usize,
                };
                let build1 = |_: ()| {
                    let mut t = base[..ti].to_vec();
                    t.push(*dv);
                    let tail_start = pos[ti] + adv;
                    (t, tail_start)
                };
                emit(st, &mut idx, 1, &mut || {
                    let (mut t, ts) = build1(());
                    t.extend(lz_tail(&p, ts, &sp.cfg));
                    (vec![t], format!("spec{} tok{} dev{} {:?}", si, ti, di, dv))
                });
                if sp.d >= 2 {
                    // second deviation inside the retokenised tail
                    let (t1, ts) = build1(());
                    let tail = lz_tail(&p, ts, &sp.cfg);
                    let tpos: Vec<usize> = tok_positions(&tail).iter().map(|x| x + ts).collect();
                    for tj in 0..tail.len() {
                        let devs2 = deviations(&p, tpos[tj], tail[tj], sp.cfg.window);
                        for (dj, dv2) in devs2.iter().enumerate() {
                            let adv2 = match dv2 {
                                Tok::Lit(_) => 1,
                                Tok::Ref { len, .. } => *len as usize,
                            };
                            emit(st, &mut idx, 2, &mut || {
                                let mut t = t1.clone();
                                t.extend_from_slice(&tail[..tj]);
                                t.push(*dv2);
                                t.extend(lz_tail(&p, tpos[tj] + adv2, &sp.cfg));
                                (vec![t], format!("spec{} tok{} dev{} + tail tok{} dev{}", si, ti, di, tj, dj))
                            });
                        }
                    }
                }
            }
        }
    }
    let e = st.eng(name);
    e.bound = format!(
        "{} (plaintext, tokeniser) specs; default tokenisation, every single deviation (literal instead of match, shorter lengths, up to 4 farther candidates + farthest, irregular 258, block split) at every token, pairs where d=2",
        specs.len()
    );
    e.exhaustive = true;
}

// ---------------------------------------------------------------------------------------------
// E6 compgrid

pub struct GridCase {
    pub comp: Comp,
    pub text_kind: usize,
    pub text_len: usize,
}

/// streams produced by real compressors; the plaintext is the second witness
pub fn e6_compgrid(
    ctx: &Ctx,
    name: &str,
    comps: &[Comp],
    texts: &[(usize, usize)],
    st: &mut Local,
    f: &mut dyn FnMut(&mut Local, &str, u64, &StreamCase, &Comp),
) {
    if !ctx.engine_on(name) {
        return;
    }
    let plains: Vec<Vec<u8>> = texts.iter().map(|&(k, l)| text_family(k, l)).collect();
    let mut idx = 0u64;
    for (ti, p) in plains.iter().enumerate() {
        for c in comps {
            let i = idx;
            idx += 1;
            if ctx.sel.mine(i) {
                let e = st.eng(name);
                e.states += 1;
                e.transitions += 1;
                e.nontrivial += 1;
            }
            if !ctx.take(name, i) {
                continue;
            }
            let bytes = match c.run(p) {
                Some(b) => b,
                None => {
                    st.outcome(name, "compressor-refused-configuration");
                    continue;
                }
            };
            let case = StreamCase {
                stream_len: bytes.len(),
                bytes,
                plain: Some(p.clone()),
                descr: format!("{} text{}/{}", c.describe(), texts[ti].0, texts[ti].1),
            };
            validate_model(&case);
            st.sample(name, || format!("#{} {} ({} bytes)", i, case.descr, case.bytes.len()));
            ctx.begin(name, i, limit_for(case.bytes.len().max(p.len())));
            f(st, name, i, &case, c);
            ctx.end();
        }
    }
    let e = st.eng(name);
    e.bound = format!("{} compressor configurations x {} fixed plaintexts {:?}", comps.len(), texts.len(), texts);
    e.exhaustive = true;
}

/// length sweep: every prefix length 0..=maxlen of given texts under the given configurations
pub fn e6_lensweep(
    ctx: &Ctx,
    name: &str,
    comps: &[Comp],
    kinds: &[usize],
    maxlen: usize,
    st: &mut Local,
    f: &mut dyn FnMut(&mut Local, &str, u64, &StreamCase, &Comp),
) {
    if !ctx.engine_on(name) {
        return;
    }
    let mut idx = 0u64;
    for &k in kinds {
        let full = text_family(k, maxlen);
        for len in 0..=maxlen {
            for c in comps {
                let i = idx;
                idx += 1;
                if ctx.sel.mine(i) {
                    let e = st.eng(name);
                    e.states += 1;
                    e.transitions += 1;
                    e.nontrivial += 1;
                }
                if !ctx.take(name, i) {
                    continue;
                }
                let p = &full[..len];
                let bytes = match c.run(p) {
                    Some(b) => b,
                    None => {
                        st.outcome(name, "compressor-refused-configuration");
                        continue;
                    }
                };
                let case = StreamCase {
                    stream_len: bytes.len(),
                    bytes,
                    plain: Some(p.to_vec()),
                    descr: format!("{} text{} len {}", c.describe(), k, len),
                };
                validate_model(&case);
                st.sample(name, || format!("#{} {} {}", i, case.descr, hex_short(&case.bytes)));
                ctx.begin(name, i, limit_for(case.bytes.len()));
                f(st, name, i, &case, c);
                ctx.end();
            }
        }
    }
    let e = st.eng(name);
    e.bound = format!("every plaintext length 0..={} of texts {:?} x {} compressor configurations", maxlen, kinds, comps.len());
    e.exhaustive = true;
}

/// E6align: a 258-byte match (copy of an earlier segment) inserted at every offset X of a window
/// around a position threshold of the hash chain (u16 position re-base), compressed by real
/// compressors; the match start sweeps over every alignment relative to the threshold
pub fn e6_align(
    ctx: &Ctx,
    name: &str,
    comps: &[Comp],
    windows: &[(usize, usize)],
    st: &mut Local,
    f: &mut dyn FnMut(&mut Local, &str, u64, &StreamCase, &Comp),
) {
    if !ctx.engine_on(name) {
        return;
    }
    let filler = text_family(8, 140_000);
    let mut idx = 0u64;
    for &(lo, hi) in windows {
        for x in lo..hi {
            for (ci, c) in comps.iter().flat_map(|c| [(0usize, c), (1usize, c), (2usize, c)]) {
                let i = idx;
                idx += 1;
                if ctx.sel.mine(i) {
                    let e = st.eng(name);
                    e.states += 1;
                    e.transitions += 1;
                    e.nontrivial += 1;
                }
                if !ctx.take(name, i) {
                    continue;
                }
                // layout: filler, U (300 unique noise bytes), V (16 unique noise bytes), filler up to x,
                // marker, copy of U[..seg], copy of V[..3|5], marker, tail. The sources are unique, so
                // every compressor finds exactly one candidate and emits one maximal match at x + 1.
                let noise = text_family(4, 400);
                let (u, v) = (&noise[..300], &noise[300..316]);
                assert!(x >= 1400, "alignment windows start above 1400");
                let mut p = filler[..x - 1000].to_vec();
                p.extend_from_slice(u);
                p.extend_from_slice(v);
                p.extend_from_slice(&filler[x - 684..x]);
                debug_assert_eq!(p.len(), x);
                p.push(0xf7);
                let seg = if ci <= 1 { 258 } else { 300 };
                p.extend_from_slice(&u[..seg]);
                // the short match: 3 bytes (shorter than every max_lazy) or 5 bytes
                p.extend_from_slice(&v[..if ci == 0 { 3 } else { 5 }]);
                p.push(0xf8);
                p.extend_from_slice(&filler[x..x + 1500]);
                let bytes = match c.run(&p) {
                    Some(b) => b,
                    None => continue,
                };
                let case = StreamCase { stream_len: bytes.len(), bytes, plain: Some(p), descr: format!("{} long match inserted at {}", c.describe(), x + 1) };
                validate_model(&case);
                st.sample(name, || format!("#{} {} ({} bytes)", i, case.descr, case.bytes.len()));
                if std::env::var("PFV_DEBUG").is_ok() && (65266..=65270).contains(&x) {
                    eprintln!("DEBUG align x={} ci={} comp={:?} est={:?}", x, ci, c, ctx.cur.estimate(&case.bytes));
                }
                ctx.begin(name, i, 120_000);
                f(st, name, i, &case, c);
                ctx.end();
            }
        }
    }
    let e = st.eng(name);
    e.bound = format!("a 258-byte copy followed by a short match, and a 300-byte copy, of earlier text inserted at every offset of the windows {:?} (around the u16 position re-base thresholds 65024 + k*32256 up to the u16 limit) x {} compressor configurations", windows, comps.len());
    e.exhaustive = true;
}

/// E4s: one reference per stream behind a 32 KiB stored prefix: (length, distance) over boundary menus.
/// Unlike E4 (256 references per stream) these streams are accepted by the full pipeline.
pub fn e4_single(ctx: &Ctx, name: &str, lens: &[u16], dists: &[u16], st: &mut Local, f: Sink) {
    if !ctx.engine_on(name) {
        return;
    }
    let prefix = e4_prefix();
    let mut idx = 0u64;
    for &dist in dists {
        for &len in lens {
            // kinds 2, 3: length 258 written as symbol 284 with extra bits 31
            for kind in 0..(if len == 258 { 4 } else { 2 }) {
                let irr = kind >= 2;
                let kind = kind % 2;
                let i = idx;
                idx += 1;
                if ctx.sel.mine(i) {
                    let e = st.eng(name);
                    e.states += 1;
                    e.transitions += 1;
                    e.nontrivial += 1;
                }
                if !ctx.take(name, i) {
                    continue;
                }
                let mut toks = vec![Tok::Lit(b'x'), Tok::Ref { len, dist, irr }];
                for k in 0..11u8 {
                    toks.push(Tok::Lit(b'A' + k));
                }
                let blk = if kind == 0 { Block::Fixed { toks } } else { Block::Dyn { hdr: default_header(&toks), toks } };
                // the reference sits one byte into the second block, so dist = 32768 reaches offset 1
                let s = Stream { blocks: vec![Block::Stored { data: prefix.clone(), pad: 0 }, blk], final_pad: 0 };
                let bytes = serialise(&s);
                let case = StreamCase { stream_len: bytes.len(), bytes, plain: Some(plaintext(&s)), descr: format!("single ref len {} dist {} {}{}", len, dist, if kind == 0 { "fixed" } else { "dynamic" }, if irr { " 284+31" } else { "" }) };
                deliver(ctx, name, st, i, case, f);
            }
        }
    }
    let e = st.eng(name);
    e.bound = format!("{} distances x lengths {:?} x {{fixed, dynamic}} (258 in both codings): one reference per stream behind a 32 KiB stored prefix", dists.len(), lens);
    e.exhaustive = true;
}

/// 4-grams x0 x1 x2 x3 over letters and digits whose two trigrams differ but collide under zlib's rotating hash
/// ((a << 10) ^ (b << 5) ^ c) & 0x7fff: every 97th of the 900 that exist, plus the first
pub fn adjacent_hash_collisions() -> Vec<[u8; 4]> {
    let al: Vec<u8> = (b'a'..=b'z').chain(b'A'..=b'Z').chain(b'0'..=b'9').collect();
    let h = |a: u8, b: u8, c: u8| ((((a & 0x1f) as u32) << 10) ^ ((b as u32) << 5) ^ c as u32) & 0x7fff;
    let mut all = Vec::new();
    for &x0 in &al {
        for &x1 in &al {
            for &x2 in &al {
                for &x3 in &al {
                    if (x0, x1, x2) != (x1, x2, x3) && h(x0, x1, x2) == h(x1, x2, x3) {
                        all.push([x0, x1, x2, x3]);
                    }
                }
            }
        }
    }
    all.into_iter().step_by(97).collect()
}

/// E6chain: plaintexts in which, at one position p, zlib's lazy look-ahead at p + 1 meets a hash chain holding
/// n short candidates in front of one long candidate, with n swept across the chain budget (max_chain) of the
/// level in use; with and without a hash collision between the trigrams at p and p + 1. Compressed by real zlib.
pub fn e6_chainspace(ctx: &Ctx, name: &str, st: &mut Local, f: Sink) {
    if !ctx.engine_on(name) {
        return;
    }
    let mut grams: Vec<[u8; 4]> = adjacent_hash_collisions();
    if ctx.quick() {
        grams.truncate(3);
    }
    grams.push(*b"k2m7"); // control: no collision
    // (level, max_chain)
    let levels: Vec<(i32, usize)> = if ctx.quick() { vec![(4, 16), (5, 32)] } else { vec![(4, 16), (5, 32), (6, 128), (7, 256), (8, 1024), (9, 4096)] };
    let filler = {
        let mut v = text_family(8, 24_000);
        v.extend_from_slice(&text_family(1, 8000));
        v
    };
    let mut idx = 0u64;
    let mut total = 0;
    for g in &grams {
        for &(level, chain) in &levels {
            let ns: Vec<usize> = if chain <= 32 && !ctx.quick() {
                (0..=chain + 4).collect()
            } else {
                let mut v: Vec<usize> = (chain.saturating_sub(5)..=chain + 2).collect();
                v.extend((chain / 4).saturating_sub(3)..=chain / 4 + 1);
                v.sort();
                v.dedup();
                v
            };
            for n in ns {
                let i = idx;
                idx += 1;
                total += 1;
                if ctx.sel.mine(i) {
                    let e = st.eng(name);
                    e.states += 1;
                    e.transitions += 1;
                    e.nontrivial += 1;
                }
                if !ctx.take(name, i) {
                    continue;
                }
                let k = &g[1..4];
                let pstr = &g[0..3];
                let mut t: Vec<u8> = Vec::new();
                t.push(b'#');
                t.extend_from_slice(k);
                t.extend_from_slice(b"-cache\n");
                for j in 0..n {
                    t.push(b'#');
                    t.extend_from_slice(k);
                    t.push(b'A' + (j % 26) as u8);
                    if j >= 26 {
                        t.push(b'a' + ((j / 26) % 26) as u8);
                    }
                    if j >= 676 {
                        t.push(b'0' + ((j / 676) % 10) as u8);
                    }
                    t.push(b'\n');
                }
                t.push(b'=');
                t.extend_from_slice(pstr);
                t.extend_from_slice(b"x\n+");
                t.push(g[0]);
                t.extend_from_slice(k);
                t.extend_from_slice(b"-cache\n");
                t.extend_from_slice(&filler);
                let c = Comp::Zlib(level, 0, 15, 8);
                let bytes = match c.run(&t) {
                    Some(b) => b,
                    None => continue,
                };
                let case = StreamCase { stream_len: bytes.len(), bytes, plain: Some(t), descr: format!("chain template {:?} n {} via {}", std::str::from_utf8(g).unwrap_or("?"), n, c.describe()) };
                validate_model(&case);
                st.sample(name, || format!("#{} {} ({} bytes)", i, case.descr, case.bytes.len()));
                ctx.begin(name, i, limit_for(case.bytes.len() * 4));
                f(st, name, i, &case);
                ctx.end();
            }
        }
    }
    let e = st.eng(name);
    e.bound = format!("{} streams: {} templates (adjacent-trigram hash collisions + 1 control) x zlib levels {:?} x n short chain candidates around max_chain and max_chain / 4 (all n in 0..=max_chain + 4 for levels 4 and 5 in the thorough tier)", total, grams.len(), levels.iter().map(|l| l.0).collect::<Vec<_>>());
    e.exhaustive = true;
}

/// E2z: raw streams whose first two bytes are a well-formed zlib header (a non-final stored block with padding bits
/// 2 * CINFO + 1 and LEN = 0x01xx, xx = FLG) and whose bytes from offset 2 on are a complete stream of their own (a final
/// stored block of 0xFExx bytes): two readings of the same bytes with different plaintext and different length. The
/// only wrapper signature that a valid raw stream can begin with is the zlib one (1F 8B has BTYPE 3, PK.. and IDAT
/// fail the LEN/NLEN check), so this is the whole space of "header sniffing" confusions.
pub fn e2_zlib_lookalikes(ctx: &Ctx, name: &str, st: &mut Local, f: Sink) {
    if !ctx.engine_on(name) {
        return;
    }
    let filler = text_family(1, 66_200);
    let mut idx = 0u64;
    let mut n = 0;
    for cinfo in 0..8u8 {
        let cmf = (cinfo << 4) | 8;
        for flevel in 0..4u8 {
            let mut flg = flevel << 6;
            let rem = ((cmf as u32) * 256 + flg as u32) % 31;
            if rem != 0 {
                flg += (31 - rem) as u8;
            }
            let i = idx;
            idx += 1;
            n += 1;
            if ctx.sel.mine(i) {
                let e = st.eng(name);
                e.states += 1;
                e.transitions += 1;
                e.nontrivial += 1;
            }
            if !ctx.take(name, i) {
                continue;
            }
            let len = 0x0100usize | flg as usize;
            // inner reading: D[2] = 01 (final stored block), LEN' = D[3..5] = !LEN, NLEN' = first two data bytes
            let len_inner = (!(len as u16)) as usize;
            let mut data: Vec<u8> = (!(len_inner as u16)).to_le_bytes().to_vec();
            data.extend_from_slice(&filler[..len - 2]);
            let s = Stream { blocks: vec![Block::Stored { data, pad: cmf >> 3 }, Block::Fixed { toks: vec![Tok::Lit(b'e'), Tok::Lit(b'n'), Tok::Lit(b'd')] }], final_pad: 0 };
            let mut bytes = serialise(&s);
            if bytes[0] != cmf || bytes[1] != flg || bytes[2] != 0x01 {
                harness_bug("E2z: the stream does not begin with the intended zlib header");
            }
            let stream_len = bytes.len();
            let want = 7 + len_inner + 9;
            bytes.extend_from_slice(&filler[300..300 + want - stream_len]);
            let case = StreamCase { stream_len, plain: Some(plaintext(&s)), bytes, descr: format!("raw stream beginning with the zlib header {:02x} {:02x}, bytes from offset 2 form a stored block of {} bytes", cmf, flg, len_inner) };
            deliver(ctx, name, st, i, case, f);
        }
    }
    let e = st.eng(name);
    e.bound = format!("{} streams: every CINFO 0..=7 x FLEVEL 0..=3 (FDICT clear, FCHECK valid)", n);
    e.exhaustive = true;
}

/// E4over: one reference whose distance is the number of bytes produced so far, one less, one more (invalid) and two
/// more (invalid), for produced counts at the 8 / 12 / 15 / 16 bit boundaries
pub fn e4_overreach(ctx: &Ctx, name: &str, st: &mut Local, f: Sink) {
    if !ctx.engine_on(name) {
        return;
    }
    let ns: [usize; 17] = [1, 2, 3, 4, 255, 256, 257, 4095, 4096, 4097, 32765, 32766, 32767, 32768, 32769, 40_000, 65_535];
    let noise = text_family(4, 65_536);
    let mut idx = 0u64;
    for &n in &ns {
        for delta in [-1i64, 0, 1, 2] {
            for len in [3u16, 258] {
                let d = n as i64 + delta;
                if !(1..=32768).contains(&d) {
                    continue;
                }
                let i = idx;
                idx += 1;
                if ctx.sel.mine(i) {
                    let e = st.eng(name);
                    e.states += 1;
                    e.transitions += 1;
                    e.nontrivial += 1;
                }
                if !ctx.take(name, i) {
                    continue;
                }
                // n bytes produced: a stored block of n - 1 bytes and one literal
                let s = Stream {
                    blocks: vec![
                        Block::Stored { data: noise[..n - 1].to_vec(), pad: 0 },
                        Block::Fixed { toks: vec![Tok::Lit(b'q'), Tok::Ref { len, dist: d as u16, irr: false }, Tok::Lit(b'z')] },
                    ],
                    final_pad: 0,
                };
                let bytes = serialise(&s);
                let valid = d <= n as i64;
                let case = StreamCase { stream_len: bytes.len(), plain: if valid { Some(plaintext(&s)) } else { None }, bytes, descr: format!("{} bytes produced, then a reference len {} dist {} ({})", n, len, d, if valid { "valid" } else { "reaches before the start: invalid" }) };
                deliver(ctx, name, st, i, case, f);
            }
        }
    }
    let e = st.eng(name);
    e.bound = format!("produced counts {:?} x distance = produced - 1, produced, produced + 1, produced + 2 (capped at 32768) x len {{3, 258}}", ns);
    e.exhaustive = true;
}

/// E4run: one reference at distance d into a long periodic run (period 1, 2 or 3): every earlier position of
/// the run is a hash-chain candidate, so the chain depth needed to find the reference grows with d
pub fn e4_runs(ctx: &Ctx, name: &str, st: &mut Local, f: Sink) {
    if !ctx.engine_on(name) {
        return;
    }
    let mut bounds: Vec<u32> = (1..=40).collect();
    for k in 1..=15u32 {
        for d in [(1u32 << k) - 1, 1 << k, (1 << k) + 1] {
            bounds.push(d);
        }
    }
    bounds.extend([4098, 4099, 8194, 8195, 8196, 8197, 8198, 16386, 32768 - 263, 32768 - 262, 32768 - 261, 32766]);
    bounds.retain(|d| (1..=32768).contains(d));
    bounds.sort();
    bounds.dedup();
    let all: Vec<u32> = (1..=32768).collect();
    // (period, length, distances)
    let mut specs: Vec<(u16, u16, &Vec<u32>)> = vec![(1, 3, &bounds), (1, 258, &bounds), (2, 3, &bounds), (3, 4, &bounds), (2, 258, &bounds)];
    if !ctx.quick() {
        specs[0] = (1, 3, &all);
        specs.push((1, 4, &all));
    }
    let mut idx = 0u64;
    let mut n = 0;
    for (period, len, dists) in &specs {
        for &d in dists.iter() {
            if d % *period as u32 != 0 {
                continue;
            }
            let i = idx;
            idx += 1;
            n += 1;
            if ctx.sel.mine(i) {
                let e = st.eng(name);
                e.states += 1;
                e.transitions += 1;
                e.nontrivial += 1;
            }
            if !ctx.take(name, i) {
                continue;
            }
            let mut toks: Vec<Tok> = (0..*period).map(|k| Tok::Lit(b'a' + k as u8)).collect();
            let mut have = *period as u32;
            while have < d + 2 {
                toks.push(Tok::Ref { len: 258, dist: *period, irr: false });
                have += 258;
            }
            toks.push(Tok::Ref { len: *len, dist: d as u16, irr: false });
            toks.push(Tok::Lit(b'x'));
            toks.push(Tok::Lit(b'y'));
            let s = Stream { blocks: vec![Block::Fixed { toks }], final_pad: 0 };
            let bytes = serialise(&s);
            let case = StreamCase { stream_len: bytes.len(), bytes, plain: Some(plaintext(&s)), descr: format!("run of period {} then one reference len {} dist {}", period, len, d) };
            deliver(ctx, name, st, i, case, f);
        }
    }
    let e = st.eng(name);
    e.bound = format!("{} streams: a run of period 1, 2 or 3 built from (258, period) references, then one reference (len 3 / 4 / 258) at distance d; d = 1..=40, 2^k and 2^k +- 1, 4096/8192-region and window-262 boundaries{}", n, if ctx.quick() { "" } else { "; every d in 1..=32768 for period 1 with len 3 and len 4" });
    e.exhaustive = true;
}

/// E2s: multi-block streams in which later blocks reference bytes of earlier stored / huffman blocks
pub fn e2_crossblock(ctx: &Ctx, name: &str, st: &mut Local, f: Sink) {
    e2_crossblock_sel(ctx, name, st, f, false)
}

/// `light`: only the first eleven cases (for checks that run thousands of executions per stream)
pub fn e2_crossblock_sel(ctx: &Ctx, name: &str, st: &mut Local, f: Sink, light: bool) {
    if !ctx.engine_on(name) {
        return;
    }
    let text = text_family(1, 1400);
    let noise = text_family(4, 600);
    let r = |len: u16, dist: u16| Tok::Ref { len, dist, irr: false };
    let mut cases: Vec<(String, Vec<Block>)> = Vec::new();
    for (sname, stored) in [("text", text[..1000].to_vec()), ("noise", noise.clone())] {
        let n = stored.len() as u16;
        for kind in 0..2 {
            // references into the stored bytes at several distances, then text that repeats stored content
            let mut toks = vec![Tok::Lit(b'#'), r(20, n - 100 + 1), r(3, 500), Tok::Lit(b'!'), r(258, n + 24 - 40), r(7, 384), r(4, 385), Tok::Lit(b'.')];
            let tail = lz_tokens(&text[200..700], &LzCfg { lazy: false, max_chain: 8, nice: 64, window: 4096 });
            toks.extend(tail.into_iter().map(|t| match t {
                Tok::Ref { len, dist, .. } => r(len, dist),
                x => x,
            }));
            let blk = if kind == 0 { Block::Fixed { toks: toks.clone() } } else { Block::Dyn { hdr: default_header(&toks), toks: toks.clone() } };
            cases.push((format!("stored({}) + {} block referencing it", sname, if kind == 0 { "fixed" } else { "dynamic" }), vec![Block::Stored { data: stored.clone(), pad: 0 }, blk.clone()]));
            cases.push((
                format!("fixed + stored({}) + {} block", sname, if kind == 0 { "fixed" } else { "dynamic" }),
                vec![Block::Fixed { toks: vec![Tok::Lit(b'a'), Tok::Lit(b'b'), r(5, 2)] }, Block::Stored { data: stored.clone(), pad: 5 }, blk],
            ));
        }
    }
    // one block with more than 65535 occurrences of the same symbol (16-bit frequency counters)
    {
        let many: Vec<Tok> = std::iter::repeat(Tok::Lit(b'a')).take(70_000).chain(std::iter::once(Tok::Lit(b'b'))).collect();
        cases.push(("dynamic block with 70000 equal literals".into(), vec![Block::Dyn { hdr: default_header(&many), toks: many.clone() }]));
        cases.push(("fixed block with 70000 equal literals".into(), vec![Block::Fixed { toks: many }]));
        let mut refs: Vec<Tok> = vec![Tok::Lit(b'a')];
        refs.extend(std::iter::repeat(r(3, 1)).take(66_000));
        cases.push(("dynamic block with 66000 equal references".into(), vec![Block::Dyn { hdr: default_header(&refs), toks: refs }]));
        // counts that wrap to 0 or to a small number while other symbols have mid-sized counts: a counter that
        // saturates, or wraps differently, predicts a different code
        for (na, label) in [(65_536usize, "65536"), (65_541, "65541"), (131_075, "131075")] {
            let mut t: Vec<Tok> = std::iter::repeat(Tok::Lit(b'a')).take(na).collect();
            t.extend(std::iter::repeat(Tok::Lit(b'c')).take(2000));
            t.extend(std::iter::repeat(Tok::Lit(b'b')).take(1000));
            t.extend((0..40u8).map(|k| Tok::Lit(b'd' + k % 20)));
            cases.push((format!("dynamic block with {} x 'a', 2000 x 'c', 1000 x 'b'", label), vec![Block::Dyn { hdr: default_header(&t), toks: t }]));
        }
        let mut t: Vec<Tok> = vec![Tok::Lit(b'a'), Tok::Lit(b'b'), Tok::Lit(b'a'), Tok::Lit(b'b'), Tok::Lit(b'c')];
        t.extend(std::iter::repeat(r(3, 1)).take(65_536));
        t.extend(std::iter::repeat(r(4, 2)).take(300));
        t.extend(std::iter::repeat(r(5, 3)).take(100));
        t.extend(std::iter::repeat(r(4, 1)).take(7));
        cases.push(("dynamic block with 65536 x (3,1), 300 x (4,2), 100 x (5,3)".into(), vec![Block::Dyn { hdr: default_header(&t), toks: t }]));
    }
    // very long stored blocks before and after a block with one near reference (small estimated window, positions
    // jumping by up to 65535 between dictionary updates)
    for (a, b) in [(40_000usize, 65_535usize), (65_535, 65_535), (1000, 65_535), (20_000, 60_000), (65_535, 1)] {
        let sa = text_family(4, a);
        let sb = text_family(4, b);
        cases.push((
            format!("stored({}) + fixed block with a (3,5) reference + stored({})", a, b),
            vec![
                Block::Stored { data: sa, pad: 0 },
                Block::Fixed { toks: vec![Tok::Lit(b'a'), Tok::Lit(b'b'), Tok::Lit(b'c'), Tok::Lit(b'd'), Tok::Lit(b'e'), r(3, 5)] },
                Block::Stored { data: sb, pad: 0 },
            ],
        ));
    }
    // more than 65535 blocks in one stream (16-bit block counters, per-stream block limits)
    {
        for total in [65_535usize, 65_536, 65_537] {
            let blocks: Vec<Block> = (0..total).map(|k| Block::Stored { data: vec![b'a' + (k % 23) as u8], pad: 0 }).collect();
            cases.push((format!("{} one-byte stored blocks", total), blocks));
        }
        let mut blocks: Vec<Block> = (0..66_000).map(|_| Block::Fixed { toks: vec![] }).collect();
        blocks.push(Block::Fixed { toks: vec![Tok::Lit(b'z')] });
        cases.push(("66000 empty fixed blocks and a final one-literal block".into(), blocks));
        let mut blocks: Vec<Block> = Vec::new();
        for k in 0..33_000usize {
            blocks.push(Block::Fixed { toks: vec![Tok::Lit(b'a' + (k % 7) as u8)] });
            blocks.push(Block::Stored { data: vec![], pad: 0 });
        }
        blocks.push(Block::Fixed { toks: vec![] });
        cases.push(("33000 x (one-literal fixed block + empty stored block), the pattern of a sync flush per byte".into(), blocks));
    }
    if light {
        cases.truncate(11);
    }
    let ncases = cases.len();
    let mut idx = 0u64;
    for (d, blocks) in cases {
        let i = idx;
        idx += 1;
        if ctx.sel.mine(i) {
            let e = st.eng(name);
            e.states += 1;
            e.transitions += blocks.len() as u64;
            e.nontrivial += 1;
        }
        if !ctx.take(name, i) {
            continue;
        }
        let s = Stream { blocks, final_pad: 0 };
        let bytes = serialise(&s);
        let case = StreamCase { stream_len: bytes.len(), plain: Some(plaintext(&s)), bytes, descr: d };
        deliver(ctx, name, st, i, case, f);
    }
    let e = st.eng(name);
    e.bound = if light { format!("the first {} of: ", ncases) } else { String::new() } + "7 single-block streams with more than 65535 occurrences of one symbol (counts wrapping to 0, 3 and 5 next to mid-sized counts); 5 streams with 65535 .. 66001 blocks; 5 streams with stored blocks of up to 65535 bytes around a near reference; 8 multi-block streams: a stored block (text / noise) followed by a fixed or dynamic block whose references reach into the stored bytes, with and without a leading huffman block";
    e.exhaustive = true;
}

/// E3pair: two dynamic blocks in one stream whose headers look alike but mean different things
/// (same run-length item list with a different HLIT/HDIST split, same code lengths with a different
/// run-length coding, same items with a different code-length code), in both orders and with a
/// stored / fixed block in between: state carried from one block to the next must not leak
pub fn e3_pairs(ctx: &Ctx, name: &str, st: &mut Local, f: Sink) {
    if !ctx.engine_on(name) {
        return;
    }
    let r = |len: u16, dist: u16| Tok::Ref { len, dist, irr: false };
    // literal/length lengths: a, b, c, EOB, 257 (len 3), 258 (len 4) -> a complete code
    let mut x = vec![0u8; 259];
    x[b'a' as usize] = 2;
    x[b'b' as usize] = 3;
    x[b'c' as usize] = 3;
    x[256] = 3;
    x[257] = 3;
    x[258] = 2;
    assert_eq!(kraft(&x), 1 << 15);
    // block A: HLIT 259, distance lengths [0, 1, 1]  (distances 2 and 3)
    // block B: HLIT 260 (one unused symbol), distance lengths [1, 1] (distances 1 and 2): same concatenation
    let toks_a = vec![Tok::Lit(b'a'), Tok::Lit(b'b'), Tok::Lit(b'c'), r(3, 2), r(4, 3), Tok::Lit(b'a')];
    let toks_b = vec![Tok::Lit(b'c'), Tok::Lit(b'a'), r(3, 1), r(4, 2), Tok::Lit(b'b')];
    let hdr_a = header_from_lengths(&x, &[0, 1, 1]);
    let mut xb = x.clone();
    xb.push(0);
    let hdr_b = header_from_lengths(&xb, &[1, 1]);
    assert_eq!(hdr_a.items, hdr_b.items);
    // same lengths, different run-length coding (no runs at all)
    let mut all = x.clone();
    all.extend_from_slice(&[0, 1, 1]);
    let items_lit: Vec<(u8, u8)> = all.iter().map(|&l| (l, 0)).collect();
    let clc2 = clc_for_items(&items_lit);
    let hdr_a2 = DynHeader { hlit: 259, hdist: 3, hclen: min_hclen(&clc2), clc: clc2, items: items_lit };
    // same items, code-length code with HCLEN slack
    let mut hdr_a3 = hdr_a.clone();
    hdr_a3.hclen = 19;
    let blocks: Vec<(&str, Block)> = vec![
        ("A", Block::Dyn { toks: toks_a.clone(), hdr: hdr_a.clone() }),
        ("B", Block::Dyn { toks: toks_b.clone(), hdr: hdr_b.clone() }),
        ("A-literal-rle", Block::Dyn { toks: toks_a.clone(), hdr: hdr_a2 }),
        ("A-hclen19", Block::Dyn { toks: toks_a.clone(), hdr: hdr_a3 }),
        ("A-default", Block::Dyn { toks: toks_a.clone(), hdr: default_header(&toks_a) }),
    ];
    let seps: Vec<(&str, Option<Block>)> = vec![
        ("", None),
        ("stored", Some(Block::Stored { data: b"xyz".to_vec(), pad: 0x1f })),
        ("fixed", Some(Block::Fixed { toks: vec![Tok::Lit(b'q')] })),
        ("empty-dynamic", Some(Block::Dyn { toks: vec![], hdr: default_header(&[]) })),
    ];
    let mut idx = 0u64;
    for (n1, b1) in &blocks {
        for (n2, b2) in &blocks {
            for (ns, sep) in &seps {
                let i = idx;
                idx += 1;
                if ctx.sel.mine(i) {
                    let e = st.eng(name);
                    e.states += 1;
                    e.transitions += 2 + sep.is_some() as u64;
                    e.nontrivial += 1;
                }
                if !ctx.take(name, i) {
                    continue;
                }
                let mut bl = vec![b1.clone()];
                if let Some(s) = sep {
                    bl.push(s.clone());
                }
                bl.push(b2.clone());
                let s = Stream { blocks: bl, final_pad: 0 };
                let bytes = serialise(&s);
                let case = StreamCase { stream_len: bytes.len(), plain: Some(plaintext(&s)), bytes, descr: format!("dynamic {} , {} , dynamic {}", n1, ns, n2) };
                deliver(ctx, name, st, i, case, f);
            }
        }
    }
    let e = st.eng(name);
    e.bound = "all ordered pairs of 5 dynamic blocks (same item list with different HLIT/HDIST split, literal run-length coding, HCLEN slack, default header) x {adjacent, stored / fixed / empty dynamic block in between}".into();
    e.exhaustive = true;
}

/// E3hist: batches of many *distinct* dynamic headers processed one after the other on one fresh
/// thread. A case is a whole batch, so state that survives a block or a call (for instance a table
/// cache keyed by a short hash of the header) is exercised with enough distinct keys to collide, and
/// the case replays alone. `f` is called for every stream of the batch, on the batch's own thread.
pub fn e3_history(ctx: &Ctx, name: &str, batches: usize, per_batch: usize, st: &mut Local, f: &(dyn Fn(&StreamCase) -> Option<String> + Sync)) {
    if !ctx.engine_on(name) {
        return;
    }
    let vecs = complete_vectors(7, 7);
    for b in 0..batches {
        let i = b as u64;
        if ctx.sel.mine(i) {
            let e = st.eng(name);
            e.states += per_batch as u64;
            e.transitions += per_batch as u64;
            e.nontrivial += 1;
        }
        if !ctx.take(name, i) {
            continue;
        }
        st.sample(name, || format!("#{} batch of {} distinct dynamic headers (6 literals out of 200 x {} complete length vectors)", i, per_batch, vecs.len()));
        ctx.begin(name, i, 600_000);
        let bad: Option<(usize, String, Vec<u8>)> = std::thread::scope(|sc| {
            sc.spawn(|| {
                for k in 0..per_batch {
                    let g = b * per_batch + k;
                    // 6 distinct literals from the combinatorial number system over 200 symbols
                    let mut rem = g / vecs.len();
                    let v = &vecs[g % vecs.len()];
                    let mut lits = [0usize; 6];
                    let mut lo = 0usize;
                    for slot in 0..6 {
                        let span = 200 - lo - (5 - slot);
                        lits[slot] = lo + rem % span;
                        rem /= span;
                        lo = lits[slot] + 1;
                        if lo + (5 - slot) > 200 {
                            lo = 200 - (5 - slot);
                        }
                    }
                    lits.sort();
                    let mut uniq = lits.to_vec();
                    uniq.dedup();
                    if uniq.len() != 6 {
                        continue;
                    }
                    let mut ll = vec![0u8; 257];
                    for (j, &sy) in uniq.iter().enumerate() {
                        ll[sy] = v[j];
                    }
                    ll[256] = v[6];
                    let toks: Vec<Tok> = uniq.iter().map(|&x| Tok::Lit(x as u8)).collect();
                    let hdr = header_from_lengths(&ll, &[1, 1]);
                    let stream = Stream { blocks: vec![Block::Dyn { toks, hdr }], final_pad: 0 };
                    let bytes = serialise(&stream);
                    let case = StreamCase { stream_len: bytes.len(), plain: Some(uniq.iter().map(|&x| x as u8).collect()), bytes, descr: String::new() };
                    if k % 64 == 0 {
                        validate_model(&case);
                    }
                    if let Some(why) = f(&case) {
                        return Some((k, why, case.bytes));
                    }
                }
                None
            })
            .join()
            .unwrap_or(None)
        });
        ctx.end();
        match bad {
            None => st.outcome(name, "batch-history-independent"),
            Some((k, why, bytes)) => st.violation(ctx.viol(name, i, "history-dependent-result", None,
                format!("stream #{} of the batch (after {} other dynamic headers on the same thread): {}", k, k, why), &bytes)),
        }
    }
    let e = st.eng(name);
    e.bound = format!("{} batches x {} distinct dynamic headers each (6 of 200 literals x {} complete code-length vectors), every batch on one fresh thread", batches, per_batch, vecs.len());
    e.exhaustive = true;
}

/// all run-length codings (RFC 1951 semantics) of `tail`, given the length `prev` that precedes it;
/// with `over` > 0 also codings whose last run overshoots the end by 1..=over entries (malformed)
pub fn all_rle_codings(tail: &[u8], prev: u8, over: usize) -> Vec<(Vec<(u8, u8)>, bool)> {
    fn rec(tail: &[u8], i: usize, prev: u8, over: usize, cur: &mut Vec<(u8, u8)>, out: &mut Vec<(Vec<(u8, u8)>, bool)>) {
        if i >= tail.len() {
            out.push((cur.clone(), i == tail.len()));
            return;
        }
        // literal
        cur.push((tail[i], 0));
        rec(tail, i + 1, tail[i], over, cur, out);
        cur.pop();
        let run_ok = |val: u8, c: usize| -> bool {
            // entries inside the tail must equal val; entries beyond the end are the overshoot
            (i..i + c).all(|k| k >= tail.len() || tail[k] == val) && i + c <= tail.len() + over
        };
        for c in 3..=6usize {
            if run_ok(prev, c) {
                cur.push((16, c as u8));
                rec(tail, i + c, prev, over, cur, out);
                cur.pop();
            }
        }
        for c in 3..=10usize {
            if run_ok(0, c) {
                cur.push((17, c as u8));
                rec(tail, i + c, 0, over, cur, out);
                cur.pop();
            }
        }
        for c in [11usize, 12, 138] {
            if run_ok(0, c) {
                cur.push((18, c as u8));
                rec(tail, i + c, 0, over, cur, out);
                cur.pop();
            }
        }
    }
    let mut out = Vec::new();
    rec(tail, 0, prev, over, &mut Vec::new(), &mut out);
    out
}

/// E3tail: for a few token lists, the head of the code length sequence in its default coding and
/// EVERY run-length coding of the last entries (end of the literal/length lengths incl. HLIT slack, the
/// HLIT/HDIST boundary, all distance lengths), valid ones and ones that overshoot by up to 2 entries
pub fn e3_tails(ctx: &Ctx, name: &str, st: &mut Local, f: Sink) {
    if !ctx.engine_on(name) {
        return;
    }
    let r = |len: u16, dist: u16| Tok::Ref { len, dist, irr: false };
    // (tokens, HLIT slack, distance lengths)
    let cfgs: Vec<(Vec<Tok>, usize, Vec<u8>)> = vec![
        (vec![Tok::Lit(b'a'), Tok::Lit(b'b'), Tok::Lit(b'c'), Tok::Lit(b'd'), r(4, 2), r(5, 4), r(3, 2)], 3, vec![0, 1, 0, 1]),
        (vec![Tok::Lit(b'a'), Tok::Lit(b'b'), r(3, 1), r(4, 2)], 4, vec![1, 1]),
        (vec![Tok::Lit(b'a'), Tok::Lit(b'b'), Tok::Lit(b'c'), r(3, 3), r(4, 4), r(5, 3)], 0, vec![0, 0, 2, 2, 2, 2]),
        (vec![Tok::Lit(b'x'), r(3, 1), r(258, 1)], 2, vec![1, 0, 0, 0, 0, 1]),
        (vec![Tok::Lit(b'q'), Tok::Lit(b'r')], 5, vec![0, 0, 0]),
    ];
    let mut idx = 0u64;
    for (ci, (toks, slack, dl)) in cfgs.iter().enumerate() {
        let (mut ll, _) = default_lengths(toks);
        let mut plain = Vec::new();
        apply_tokens(&mut plain, toks);
        let real = ll.len();
        ll.resize((real + slack).min(286), 0);
        // the tail starts at the last used literal/length symbol
        let cut = real - 1;
        let mut tail: Vec<u8> = ll[cut..].to_vec();
        tail.extend_from_slice(dl);
        let prev = if cut > 0 { ll[cut - 1] } else { 0 };
        let head = default_rle(&ll[..cut]);
        // the default coding of the head must not end in a run that could merge with the tail; keep as is
        for (items_tail, valid) in all_rle_codings(&tail, prev, 2) {
            let i = idx;
            idx += 1;
            if ctx.sel.mine(i) {
                let e = st.eng(name);
                e.states += 1;
                e.transitions += items_tail.len() as u64;
                e.nontrivial += 1;
            }
            if !ctx.take(name, i) {
                continue;
            }
            let mut items = head.clone();
            items.extend_from_slice(&items_tail);
            let clc = clc_for_items(&items);
            let hdr = DynHeader { hlit: ll.len(), hdist: dl.len(), hclen: min_hclen(&clc), clc, items };
            if !header_covers(&hdr, toks) {
                continue;
            }
            let s = Stream { blocks: vec![Block::Dyn { toks: toks.clone(), hdr }], final_pad: 0 };
            let bytes = serialise(&s);
            // a distance code that is neither complete nor a single 1-bit code is rejected by zlib: the
            // model vouches only for headers zlib can take
            let dk = kraft(dl);
            let zlib_ok = valid && (dk == 1 << 15 || dl.iter().filter(|&&l| l != 0).count() <= 1);
            let case = StreamCase { stream_len: bytes.len(), plain: if zlib_ok { Some(plain.clone()) } else { None }, bytes, descr: format!("cfg{} tail coding {:?}{}", ci, items_tail, if valid { "" } else { " (overshoots)" }) };
            deliver(ctx, name, st, i, case, f);
        }
    }
    let e = st.eng(name);
    e.bound = "5 (token list, HLIT slack, distance lengths) configurations x every run-length coding of the last literal/length entry, the slack, the HLIT/HDIST boundary and all distance lengths (codes 16/17/18 with every count), valid and overshooting by 1-2 entries".into();
    e.exhaustive = true;
}
