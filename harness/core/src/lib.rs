pub mod comp;
pub mod model;
pub mod mutspace;
pub mod props;
pub mod props_stream;
pub mod rt;
pub mod streams;
pub mod wrap;
