//! E7 bytespace and E8 mutspace: all short byte strings, and the complete single-mutation
//! neighbourhoods (prefixes, bit flips, deletions, menu insertions) of seed streams.

use crate::comp;
use crate::model::*;
use crate::rt::*;
use crate::streams::text_family;

pub type BSink<'s> = &'s mut dyn FnMut(&mut Local, &str, u64, &[u8]);

fn run_case(ctx: &Ctx, name: &str, st: &mut Local, idx: u64, bytes: &[u8], f: BSink) {
    ctx.begin(name, idx, limit_for(bytes.len()));
    f(st, name, idx, bytes);
    ctx.end();
}

/// all byte strings of length <= k, numbered by (length, big-endian value)
pub fn e7_bytespace(ctx: &Ctx, name: &str, k: usize, st: &mut Local, f: BSink) {
    if !ctx.engine_on(name) {
        return;
    }
    let mut base: u64 = 0;
    let mut buf = [0u8; 8];
    for len in 0..=k {
        let count: u64 = 1u64 << (8 * len);
        // first value of this length that belongs to this shard
        let mut v = ((ctx.sel.shard as u128 + ctx.sel.nshards as u128 - (base % ctx.sel.nshards) as u128) % ctx.sel.nshards as u128) as u64;
        while v < count {
            let idx = base + v;
            for i in 0..len {
                buf[i] = (v >> (8 * (len - 1 - i))) as u8;
            }
            {
                let e = st.eng(name);
                e.states += 1;
                e.transitions += (len > 0) as u64;
                e.nontrivial += 1;
            }
            if ctx.take(name, idx) {
                if idx % 4099 == 0 {
                    st.sample(name, || format!("#{} {}", idx, hex(&buf[..len])));
                }
                run_case(ctx, name, st, idx, &buf[..len], f);
            }
            v = match v.checked_add(ctx.sel.nshards) {
                Some(x) => x,
                None => break,
            };
        }
        base += count;
    }
    let e = st.eng(name);
    e.bound = format!("all byte strings of length <= {}", k);
    e.exhaustive = true;
}

/// every E1 stream (fixed block) over `a` letters with plaintext <= n
pub fn e1_collect(a: usize, n: usize) -> Vec<Vec<u8>> {
    fn rec(a: usize, n: usize, toks: &mut Vec<Tok>, plain: &mut Vec<u8>, out: &mut Vec<Vec<u8>>) {
        out.push(serialise(&Stream { blocks: vec![Block::Fixed { toks: toks.clone() }], final_pad: 0 }));
        let pos = plain.len();
        if pos >= n {
            return;
        }
        for l in 0..a {
            toks.push(Tok::Lit(b'a' + l as u8));
            plain.push(b'a' + l as u8);
            rec(a, n, toks, plain, out);
            plain.pop();
            toks.pop();
        }
        for len in 3..=(n - pos) {
            for dist in 1..=pos {
                let t = Tok::Ref { len: len as u16, dist: dist as u16, irr: false };
                toks.push(t);
                apply_tokens(plain, &[t]);
                rec(a, n, toks, plain, out);
                plain.truncate(pos);
                toks.pop();
            }
        }
    }
    let mut out = Vec::new();
    rec(a, n, &mut Vec::new(), &mut Vec::new(), &mut out);
    out
}

/// seed streams for the mutation neighbourhoods
pub fn stream_seeds(quick: bool) -> Vec<Vec<u8>> {
    let mut seeds = e1_collect(2, if quick { 6 } else { 7 });
    // short dynamic / stored / multi-block streams from the model
    let r = |len: u16, dist: u16| Tok::Ref { len, dist, irr: false };
    let t1 = vec![Tok::Lit(b'a'), Tok::Lit(b'b'), r(3, 2), Tok::Lit(b'c'), r(5, 3)];
    seeds.push(serialise(&Stream { blocks: vec![Block::Dyn { hdr: default_header(&t1), toks: t1.clone() }], final_pad: 0 }));
    seeds.push(serialise(&Stream {
        blocks: vec![Block::Stored { data: b"hello".to_vec(), pad: 0 }, Block::Fixed { toks: vec![r(4, 5), Tok::Lit(b'!')] }],
        final_pad: 0,
    }));
    seeds.push(serialise(&Stream {
        blocks: vec![Block::Fixed { toks: t1.clone() }, Block::Dyn { hdr: default_header(&t1[..2]), toks: t1[..2].to_vec() }, Block::Stored { data: vec![], pad: 3 }],
        final_pad: 0x2a,
    }));
    let t258 = vec![Tok::Lit(b'z'), Tok::Ref { len: 258, dist: 1, irr: true }, Tok::Lit(b'y')];
    seeds.push(serialise(&Stream { blocks: vec![Block::Fixed { toks: t258 }], final_pad: 0 }));
    // outputs of the real compressors on short texts
    let lens: &[usize] = if quick { &[24, 70] } else { &[12, 24, 48, 70, 100] };
    for &len in lens {
        let p = text_family(1, len);
        for c in [
            comp::Comp::Zlib(1, 0, 15, 8),
            comp::Comp::Zlib(6, 0, 15, 8),
            comp::Comp::Zlib(9, 0, 9, 1),
            comp::Comp::Zlib(6, 2, 15, 8),
            comp::Comp::Zlib(6, 3, 15, 8),
            comp::Comp::Zlib(6, 4, 15, 8),
            comp::Comp::Zlib(0, 0, 15, 8),
            comp::Comp::ZlibNg(1),
            comp::Comp::ZlibNg(6),
            comp::Comp::Libdeflate(1),
            comp::Comp::Libdeflate(6),
            comp::Comp::Libdeflate(12),
            comp::Comp::Miniz(1),
            comp::Comp::Miniz(6),
        ] {
            if let Some(b) = c.run(&p) {
                if b.len() <= 140 {
                    seeds.push(b);
                }
            }
        }
    }
    seeds.sort();
    seeds.dedup();
    seeds
}

const INSERT_MENU: [u8; 4] = [0x00, 0xff, 0x55, 0x80];

/// complete single-mutation neighbourhood of each seed; pairs of bit flips for tiny seeds
pub fn mutate_all(ctx: &Ctx, name: &str, seeds: &[Vec<u8>], pair_seed_max_len: usize, pair_seed_count: usize, st: &mut Local, f: BSink) {
    let mut idx = 0u64;
    let mut pairs_done = 0;
    for seed in seeds {
        let n = seed.len();
        let mut emit = |st: &mut Local, idx: &mut u64, mk: &mut dyn FnMut() -> Vec<u8>| {
            let i = *idx;
            *idx += 1;
            if ctx.sel.mine(i) {
                let e = st.eng(name);
                e.states += 1;
                e.transitions += 1;
                e.nontrivial += 1;
            }
            if ctx.take(name, i) {
                let b = mk();
                if i % 997 == 0 {
                    st.sample(name, || format!("#{} {}", i, hex_short(&b)));
                }
                run_case(ctx, name, st, i, &b, f);
            }
        };
        // the seed itself
        emit(st, &mut idx, &mut || seed.clone());
        // every proper prefix
        for k in 0..n {
            emit(st, &mut idx, &mut || seed[..k].to_vec());
        }
        // every single-bit flip
        for bit in 0..n * 8 {
            emit(st, &mut idx, &mut || {
                let mut b = seed.clone();
                b[bit / 8] ^= 1 << (bit % 8);
                b
            });
        }
        // every single-byte deletion
        for k in 0..n {
            emit(st, &mut idx, &mut || {
                let mut b = seed.clone();
                b.remove(k);
                b
            });
        }
        // menu insertions at every offset
        for k in 0..=n {
            for &v in &INSERT_MENU {
                emit(st, &mut idx, &mut || {
                    let mut b = seed.clone();
                    b.insert(k, v);
                    b
                });
            }
        }
        // all pairs of bit flips for tiny seeds
        if n <= pair_seed_max_len && n > 0 && pairs_done < pair_seed_count {
            pairs_done += 1;
            for b1 in 0..n * 8 {
                for b2 in b1 + 1..n * 8 {
                    emit(st, &mut idx, &mut || {
                        let mut b = seed.clone();
                        b[b1 / 8] ^= 1 << (b1 % 8);
                        b[b2 / 8] ^= 1 << (b2 % 8);
                        b
                    });
                }
            }
        }
    }
}

pub fn e8_stream_mutants(ctx: &Ctx, name: &str, st: &mut Local, f: BSink) {
    if !ctx.engine_on(name) {
        return;
    }
    let seeds = stream_seeds(ctx.quick());
    let (pl, pc) = if ctx.quick() { (6, 12) } else { (12, 200) };
    mutate_all(ctx, name, &seeds, pl, pc, st, f);
    let e = st.eng(name);
    e.bound = format!(
        "{} seed streams (all E1 fixed-block streams over 2 letters with plaintext <= {}, 4 model streams with dynamic/stored/empty blocks and irregular 258, compressor outputs of short texts): every prefix, every single-bit flip, every byte deletion, insertion of 4 values at every offset; all pairs of bit flips for the first {} seeds of <= {} bytes",
        seeds.len(), if ctx.quick() { 6 } else { 7 }, pc, pl
    );
    e.exhaustive = true;
}

/// block-header noise: dynamic headers with all HLIT/HDIST/HCLEN values and all code-length-code
/// prefixes, stored headers with all small LEN/NLEN combinations
pub fn header_noise(ctx: &Ctx, name: &str, st: &mut Local, f: BSink) {
    if !ctx.engine_on(name) {
        return;
    }
    let conts: [u8; 4] = [0x00, 0xff, 0xaa, 0x55];
    let hlits: Vec<u32> = if ctx.quick() { vec![0, 1, 29, 30, 31] } else { (0..32).collect() };
    let hdists: Vec<u32> = if ctx.quick() { vec![0, 1, 29, 30, 31] } else { (0..32).collect() };
    let clc_count: u32 = if ctx.quick() { 512 } else { 4096 };
    let mut idx = 0u64;
    for &hl in &hlits {
        for &hd in &hdists {
            for hc in 0..16u32 {
                for clc in 0..clc_count {
                    for &c in &conts {
                        let i = idx;
                        idx += 1;
                        if !ctx.sel.mine(i) {
                            continue;
                        }
                        {
                            let e = st.eng(name);
                            e.states += 1;
                            e.transitions += 1;
                            e.nontrivial += 1;
                        }
                        if !ctx.take(name, i) {
                            continue;
                        }
                        let mut w = BitW::new();
                        w.put(1, 1);
                        w.put(2, 2);
                        w.put(hl, 5);
                        w.put(hd, 5);
                        w.put(hc, 4);
                        w.put(clc, 12);
                        let mut b = w.finish(c);
                        b.extend_from_slice(&[c; 10]);
                        if i % 65537 == 0 {
                            st.sample(name, || format!("#{} {}", i, hex(&b)));
                        }
                        run_case(ctx, name, st, i, &b, f);
                    }
                }
            }
        }
    }
    // stored blocks: LEN in 0..=3 x NLEN in {!LEN, !LEN+1, !LEN-1, LEN, 0, 0xffff} x available bytes 0..=LEN+1 x BFINAL
    for bfinal in 0..2u32 {
        for pad in [0u8, 0x1f] {
            for len in 0..=3u16 {
                for nl in [!len, (!len).wrapping_add(1), (!len).wrapping_sub(1), len, 0, 0xffff] {
                    for avail in 0..=(len as usize + 1) {
                        let i = idx;
                        idx += 1;
                        if !ctx.sel.mine(i) {
                            continue;
                        }
                        {
                            let e = st.eng(name);
                            e.states += 1;
                            e.transitions += 1;
                            e.nontrivial += 1;
                        }
                        if !ctx.take(name, i) {
                            continue;
                        }
                        let mut w = BitW::new();
                        w.put(bfinal, 1);
                        w.put(0, 2);
                        w.align(pad);
                        w.bytes(&len.to_le_bytes());
                        w.bytes(&nl.to_le_bytes());
                        let mut b = w.finish(0);
                        for k in 0..avail {
                            b.push(b'a' + k as u8);
                        }
                        run_case(ctx, name, st, i, &b, f);
                    }
                }
            }
        }
    }
    let e = st.eng(name);
    e.bound = format!(
        "dynamic block headers: {} HLIT x {} HDIST x 16 HCLEN x {} values of the first four code-length-code lengths x 4 continuation fills; stored headers: LEN 0..3 x 6 NLEN values x available bytes 0..LEN+1 x BFINAL x 2 paddings",
        hlits.len(), hdists.len(), clc_count
    );
    e.exhaustive = true;
}
