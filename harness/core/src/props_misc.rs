//! C04 (driver), C08, C09, C10.

use crate::comp::{self, Comp};
use crate::model::LzCfg;
use crate::props_file::*;
use crate::props_stream::*;
use crate::rt::*;
use crate::streams::*;

// ---------------------------------------------------------------------------------------------
// C04

pub fn run_c04(ctx: &Ctx, st: &mut Local) {
    let vc = ctx.cur.format_versions();
    let vr = ctx.refb.format_versions();
    if vc != vr {
        // an announced format change: the property asks for nothing else
        let e = st.eng("versions");
        if ctx.thread == 0 {
            e.states = 1;
            e.transitions = 1;
            e.traces = 1;
            e.nontrivial = 1;
            e.outcomes.insert(format!("format-versions-differ: current {:?} reference {:?} (announced change; nothing to check)", vc, vr), 1);
            e.samples.push(format!("{:?} vs {:?}", vc, vr));
        }
        e.exhaustive = true;
        e.bound = "format version constants differ".into();
        return;
    }
    let mut f = |st: &mut Local, eng: &str, i: u64, c: &StreamCase| c04_stream_check(ctx, st, eng, i, &c.bytes);
    shared_stream_spaces(ctx, st, &mut f);
    // codec-heavy streams: headers, long streams (context adaptation over many operations)
    let dists: Vec<u16> = e4_quick_dists().into_iter().step_by(if ctx.quick() { 16 } else { 2 }).collect();
    e4_pairspace(ctx, "E4", &dists, st, &mut f);
    let cfg = if ctx.quick() {
        E9Cfg { full_wrappers: false, junk_pre: vec![0, 3], junk_post: vec![0, 1], odd: true, depth2: true, only_supported: false }
    } else {
        E9Cfg { full_wrappers: true, junk_pre: vec![0, 1, 3, 6, 11], junk_post: vec![0, 1, 8], odd: true, depth2: true, only_supported: false }
    };
    let mut g = |st: &mut Local, eng: &str, i: u64, c: &FileCase| c04_file_check(ctx, st, eng, i, &c.bytes);
    e9_filespace(ctx, "E9", &cfg, st, &mut g);

    // forced parameter classes: the reference codes the corrections under its estimator's vector with the
    // hash algorithm / add policy / matching type replaced (all values the estimator emits for some
    // stream), so that every prediction path is part of the cross-build comparison even where the
    // estimator rarely chooses it for the streams at hand
    let hashes: Vec<Vec<(usize, u32)>> = vec![
        vec![(4, 2)], vec![(4, 1), (5, 5), (6, 32767)], vec![(4, 1), (5, 4), (6, 2047)], vec![(4, 3)], vec![(4, 4)], vec![(4, 5)], vec![(4, 6)], vec![(4, 7)],
    ];
    let addp: Vec<Vec<(usize, u32)>> = vec![vec![(16, 0)], vec![(16, 1), (17, 4)], vec![(16, 2), (17, 6)], vec![(16, 3)], vec![(16, 4)]];
    let matchings: Vec<Vec<(usize, u32)>> = vec![vec![(11, 0), (12, 0), (13, 258)], vec![(11, 4), (12, 4), (13, 16)], vec![(11, 8), (12, 16), (13, 128)]];
    let mut h = |st: &mut Local, eng: &str, idx: u64, c: &StreamCase| {
        let d = &c.bytes;
        let est = match caught(|| ctx.refb.estimate(d)) {
            Ok(Ok(v)) if v[0] <= 1 => v,
            _ => {
                st.outcome(eng, "no-dictionary-parameters");
                return;
            }
        };
        let mut ok = 0u64;
        let mut rej = 0u64;
        for hh in &hashes {
            for a in &addp {
                for m in &matchings {
                    let mut v = est.clone();
                    for &(i, x) in hh.iter().chain(a.iter()).chain(m.iter()) {
                        v[i] = x;
                    }
                    normalise(&mut v);
                    ctx.begin(eng, idx, limit_for(d.len()));
                    let (plain, corr, consumed) = match caught(|| ctx.refb.corrections_with_params(d, &v)) {
                        Ok(Ok(x)) => x,
                        _ => {
                            rej += 1;
                            continue;
                        }
                    };
                    // only data the reference itself can read back counts as written by it
                    match caught(|| ctx.refb.recompress(&plain, &corr)) {
                        Ok(Ok(b)) if b[..] == d[..consumed] => {}
                        _ => {
                            rej += 1;
                            continue;
                        }
                    }
                    match caught(|| ctx.cur.recompress(&plain, &corr)) {
                        Ok(Ok(b)) if b[..] == d[..consumed] => ok += 1,
                        other => {
                            let what = match other {
                                Err(p) => format!("panics at {}", p.loc),
                                Ok(Err(e)) => format!("fails: {}", first_line(&e.msg)),
                                Ok(Ok(b)) => format!("rebuilds {} bytes that differ", b.len()),
                            };
                            st.violation(ctx.viol(eng, idx, "current-misreads-reference-data-coded-under-forced-parameters", None,
                                format!("corrections coded by the reference under parameters {:?}: the current build {}", v, what), d));
                            return;
                        }
                    }
                }
            }
        }
        let e = st.eng(eng);
        e.traces += ok + rej;
        *e.outcomes.entry("forced-parameters:reference-data-rebuilt-exactly".into()).or_insert(0) += ok;
        *e.outcomes.entry("forced-parameters:reference-cannot-code-or-read".into()).or_insert(0) += rej;
    };
    e1_tokspace(ctx, "E1(2,7)xP", 2, if ctx.quick() { 7 } else { 9 }, Kinds { fixed: true, dynamic: false }, st, &mut h);
    let mut hg = |st: &mut Local, e: &str, i: u64, c: &StreamCase, _k: &Comp| h(st, e, i, c);
    let sweep: Vec<Comp> = vec![Comp::Zlib(1, 0, 15, 8), Comp::Zlib(6, 0, 15, 8), Comp::Libdeflate(6), Comp::ZlibNg(2), Comp::Miniz(1), Comp::Miniz(6)];
    e6_lensweep(ctx, "E6lenxP", &sweep, &[1, 8], if ctx.quick() { 48 } else { 200 }, st, &mut hg);
    let texts: Vec<(usize, usize)> = if ctx.quick() { vec![(8, 6000), (1, 2000)] } else { vec![(8, 12_000), (1, 4096), (9, 12_000), (8, 70_000)] };
    e6_compgrid(ctx, "E6xP", &sweep, &texts, st, &mut hg);
    for name in ["E1(2,7)xP", "E6lenxP", "E6xP"] {
        if let Some(e) = st.engines.get_mut(name) {
            e.notes.push("per stream: 8 hash algorithms x 5 add policies x 3 matching types substituted into the reference estimator's vector; judged only where the reference can code and read back the data itself".into());
        }
    }
}

// ---------------------------------------------------------------------------------------------
// C08

pub const NF: usize = 18;

fn normalise(v: &mut [u32]) {
    if v[4] != 1 {
        v[5] = 0;
        v[6] = 0;
    }
    if v[12] == 0 {
        v[11] = 0;
    }
    if v[16] != 1 && v[16] != 2 {
        v[17] = 0;
    }
}

/// (field indices, values) alternatives per logical field
fn field_menus() -> Vec<Vec<Vec<(usize, u32)>>> {
    let mut m: Vec<Vec<Vec<(usize, u32)>>> = Vec::new();
    // strategy: Default, RleOnly
    m.push(vec![vec![(0, 0)], vec![(0, 1)]]);
    // huff strategy
    m.push(vec![vec![(1, 0)], vec![(1, 1)], vec![(1, 2)]]);
    // zlib_compatible
    m.push(vec![vec![(2, 0)], vec![(2, 1)]]);
    // window bits
    m.push((9..=15).map(|w| vec![(3, w)]).collect());
    // hash algorithm (with shift/mask for zlib)
    m.push(vec![
        vec![(4, 2)],
        vec![(4, 1), (5, 5), (6, 32767)],
        vec![(4, 1), (5, 4), (6, 2047)],
        vec![(4, 3)],
        vec![(4, 4)],
        vec![(4, 5)],
        vec![(4, 6)],
        vec![(4, 7)],
        vec![(4, 0)],
    ]);
    // max token count
    m.push([127u32, 255, 16383, 16386, 32767, 1, 2].iter().map(|&x| vec![(7, x)]).collect());
    // max_dist_3_matches
    m.push([0u32, 1, 4095, 4096, 32767].iter().map(|&x| vec![(8, x)]).collect());
    // very far / to start
    m.push(vec![vec![(9, 0)], vec![(9, 1)]]);
    m.push(vec![vec![(10, 0)], vec![(10, 1)]]);
    // matching: greedy or lazy rows (good_length, max_lazy, nice_length)
    m.push(vec![
        vec![(11, 0), (12, 0), (13, 8)],
        vec![(11, 0), (12, 0), (13, 16)],
        vec![(11, 0), (12, 0), (13, 32)],
        vec![(11, 0), (12, 0), (13, 258)],
        vec![(11, 4), (12, 4), (13, 16)],
        vec![(11, 8), (12, 16), (13, 32)],
        vec![(11, 8), (12, 16), (13, 128)],
        vec![(11, 8), (12, 32), (13, 128)],
        vec![(11, 32), (12, 128), (13, 258)],
        vec![(11, 32), (12, 258), (13, 258)],
        vec![(11, 0), (12, 0), (13, 3)],
    ]);
    // max chain
    m.push([1u32, 2, 3, 4, 5, 8, 16, 128, 4096].iter().map(|&x| vec![(14, x)]).collect());
    // min len
    m.push(vec![vec![(15, 3)], vec![(15, 4)]]);
    // add policy
    let mut ap = vec![vec![(16, 0)], vec![(16, 3)], vec![(16, 4)]];
    for l in [0u32, 3, 4, 5, 6, 32, 96, 255] {
        ap.push(vec![(16, 1), (17, l)]);
        ap.push(vec![(16, 2), (17, l)]);
    }
    m.push(ap);
    m
}

fn apply(base: &[u32], alt: &[(usize, u32)]) -> Vec<u32> {
    let mut v = base.to_vec();
    for &(i, x) in alt {
        v[i] = x;
    }
    normalise(&mut v);
    v
}

fn c08_one(ctx: &Ctx, st: &mut Local, eng: &str, idx: u64, d: &[u8], v: &[u32], counts: &mut [u64; 3]) {
    // one case covers thousands of vectors: the time limit applies to each run
    ctx.begin(eng, idx, limit_for(d.len()));
    match caught(|| ctx.cur.roundtrip_with_params(d, v)) {
        Err(p) => st.violation(ctx.viol(eng, idx, "panic", Some(p.loc.clone()), format!("params {:?}: {}", v, p.msg), d)),
        Ok(Err(e)) => {
            // Err is fine when *producing* the corrections fails; corrections that were produced but
            // cannot be decoded are a violation
            match caught(|| ctx.cur.corrections_with_params(d, v)) {
                Ok(Ok(_)) => st.violation(ctx.viol(eng, idx, "corrections-produced-but-not-decodable", None,
                    format!("params {:?}: corrections were produced, reconstruction from them fails: {}", v, first_line(&e.msg)), d)),
                _ => counts[1] += 1,
            }
        }
        Ok(Ok((re, consumed, _csize, reread))) => {
            if consumed > d.len() || re[..] != d[..consumed] {
                st.violation(ctx.viol(eng, idx, "reconstruction-differs", None,
                    format!("params {:?}: corrections coded under these parameters rebuild {} instead of the stream", v, hex_short(&re)), d));
            } else if reread != v {
                st.violation(ctx.viol(eng, idx, "parameters-reread-differ", None, format!("written {:?} re-read {:?}", v, reread), d));
            } else {
                counts[0] += 1;
            }
        }
    }
}

pub fn run_c08(ctx: &Ctx, st: &mut Local) {
    let menus = field_menus();
    // full product hash x add-policy kind x matching
    let hashes = &menus[4];
    let matchings: Vec<Vec<(usize, u32)>> = vec![menus[9][3].clone(), menus[9][4].clone(), menus[9][9].clone()];
    let addp: Vec<Vec<(usize, u32)>> = vec![
        vec![(16, 0)], vec![(16, 1), (17, 4)], vec![(16, 2), (17, 4)], vec![(16, 3)], vec![(16, 4)],
    ];
    let pairs_all = !ctx.quick();
    let mut f = |st: &mut Local, eng: &str, idx: u64, c: &StreamCase| {
        let d = &c.bytes;
        let est = match caught(|| ctx.cur.estimate(d)) {
            Err(p) => {
                st.outcome(eng, &format!("estimator-panic@{}", p.loc));
                return;
            }
            Ok(Err(_)) => {
                // the estimator gives nothing: start from a plain zlib-like vector
                vec![0, 0, 1, 15, 1, 5, 32767, 16383, 32767, 0, 0, 0, 0, 258, 128, 3, 0, 0]
            }
            Ok(Ok(v)) => v,
        };
        let mut base = est.clone();
        normalise(&mut base);
        let mut counts = [0u64; 3];
        // (i) the estimator's own vector: must be accepted by the hook
        c08_one(ctx, st, eng, idx, d, &base, &mut counts);
        let store_like = base[0] >= 2;
        if store_like {
            // Store / HuffOnly keep their fixed vector (no dictionary parameters apply)
            base = vec![0, base[1], 1, 15, 1, 5, 32767, 16386, 32767, 0, 0, 0, 0, 258, 128, 3, 0, 0];
        }
        // (ii) single-field deviations
        for fm in &menus {
            for alt in fm {
                let v = apply(&base, alt);
                if v != base {
                    c08_one(ctx, st, eng, idx, d, &v, &mut counts);
                }
            }
        }
        // streams of more than 30000 tokens' worth of input (the > 65535-symbol blocks): single deviations only in
        // the quick tier, one such stream would otherwise occupy a worker for a minute
        let big = !pairs_all && c.plain.as_ref().map_or(d.len() > 30_000, |p| p.len() > 60_000);
        // (iii) pairs of deviations
        for a in 0..menus.len() {
            if big {
                break;
            }
            for b in a + 1..menus.len() {
                let important = |x: usize| x == 4 || x == 9 || x == 12 || x == 3 || x == 10 || x == 6;
                if !pairs_all && !(important(a) && important(b)) {
                    continue;
                }
                for alt1 in &menus[a] {
                    let v1 = apply(&base, alt1);
                    for alt2 in &menus[b] {
                        let v = apply(&v1, alt2);
                        c08_one(ctx, st, eng, idx, d, &v, &mut counts);
                    }
                }
            }
        }
        // (iv) full product hash x add policy x matching
        for h in hashes {
            if big {
                break;
            }
            let v1 = apply(&base, h);
            for m in &matchings {
                let v2 = apply(&v1, m);
                for a in &addp {
                    let v = apply(&v2, a);
                    c08_one(ctx, st, eng, idx, d, &v, &mut counts);
                    // near the end of input with tiny chains and 4-byte minimum
                    let mut v4 = v.clone();
                    v4[14] = 1;
                    v4[15] = 4;
                    c08_one(ctx, st, eng, idx, d, &v4, &mut counts);
                }
            }
        }
        let e = st.eng(eng);
        e.traces += counts[0] + counts[1];
        *e.outcomes.entry("reconstructed-exactly-and-parameters-reread".into()).or_insert(0) += counts[0];
        *e.outcomes.entry("rejected-with-Err".into()).or_insert(0) += counts[1];
    };
    let fixed = Kinds { fixed: true, dynamic: false };
    if ctx.quick() {
        e1_tokspace(ctx, "E1(2,7)xE13", 2, 7, fixed, st, &mut f);
    } else {
        e1_tokspace(ctx, "E1(2,9)xE13", 2, 9, fixed, st, &mut f);
        e1_tokspace(ctx, "E1(3,6)xE13", 3, 6, Kinds { fixed: true, dynamic: true }, st, &mut f);
    }
    let greedy = LzCfg { lazy: false, max_chain: 32, nice: 258, window: 32768 };
    let lazy = LzCfg { lazy: true, max_chain: 16, nice: 32, window: 32768 };
    let specs = if ctx.quick() {
        vec![DevSpec { kind: 1, len: 160, cfg: greedy, dynamic: false, d: 1 }]
    } else {
        vec![
            DevSpec { kind: 1, len: 400, cfg: greedy, dynamic: false, d: 1 },
            DevSpec { kind: 0, len: 300, cfg: lazy, dynamic: true, d: 1 },
            DevSpec { kind: 3, len: 1024, cfg: greedy, dynamic: false, d: 1 },
            DevSpec { kind: 6, len: 500, cfg: lazy, dynamic: false, d: 1 },
        ]
    };
    e5_devspace(ctx, "E5xE13", &specs, st, &mut f);
    e2_crossblock_sel(ctx, "E2sxE13", st, &mut f, true);
    {
        let dists: Vec<u16> = if ctx.quick() { vec![1, 4, 300, 32768] } else { vec![1, 2, 4, 5, 300, 4096, 4097, 32506, 32507, 32767, 32768] };
        e4_single(ctx, "E4sxE13", &[3, 4, 258], &dists, st, &mut f);
    }
    let comps: Vec<Comp> = vec![
        Comp::Zlib(1, 0, 15, 8), Comp::Zlib(4, 0, 15, 8), Comp::Zlib(6, 0, 9, 1), Comp::Zlib(9, 0, 15, 9), Comp::Zlib(6, 3, 15, 8),
        Comp::ZlibNg(1), Comp::ZlibNg(3), Comp::Libdeflate(1), Comp::Libdeflate(6), Comp::Miniz(1), Comp::Miniz(6), Comp::Libdeflate(12),
    ];
    let texts: Vec<(usize, usize)> = if ctx.quick() { vec![(1, 700), (9, 2400)] } else { vec![(1, 3000), (9, 6000), (5, 70_000)] };
    let mut g = |st: &mut Local, e: &str, i: u64, c: &StreamCase, _k: &Comp| f(st, e, i, c);
    e6_compgrid(ctx, "E6xE13", &comps, &texts, st, &mut g);
    // long streams with thousands of block boundaries: the estimator's vector and a light menu only
    {
        let menus2 = field_menus();
        let mut light = |st: &mut Local, eng: &str, idx: u64, c: &StreamCase, _k: &Comp| {
            let d = &c.bytes;
            let est = match caught(|| ctx.cur.estimate(d)) {
                Ok(Ok(v)) => v,
                _ => {
                    st.outcome(eng, "no-estimate");
                    return;
                }
            };
            let mut base = est.clone();
            normalise(&mut base);
            let mut counts = [0u64; 3];
            c08_one(ctx, st, eng, idx, d, &base, &mut counts);
            for fi in [9usize, 10, 2] {
                for alt in menus2[fi].iter().step_by(3) {
                    let v = apply(&base, alt);
                    if v != base {
                        c08_one(ctx, st, eng, idx, d, &v, &mut counts);
                    }
                }
            }
            let e = st.eng(eng);
            e.traces += counts[0] + counts[1];
            *e.outcomes.entry("reconstructed-exactly-and-parameters-reread".into()).or_insert(0) += counts[0];
            *e.outcomes.entry("rejected-with-Err".into()).or_insert(0) += counts[1];
        };
        e6_compgrid(ctx, "E6blocksxE13light", &lazy_small_block_comps(true), &lazy_small_block_texts(true), st, &mut light);
    }
    let lens = if ctx.quick() { 40 } else { 120 };
    let sweep: Vec<Comp> = vec![Comp::Zlib(6, 0, 15, 8), Comp::Libdeflate(6), Comp::ZlibNg(2), Comp::Miniz(1)];
    e6_lensweep(ctx, "E6lenxE13", &sweep, &[1], lens, st, &mut g);
    for name in ["E1(2,7)xE13", "E1(2,9)xE13", "E1(3,6)xE13", "E5xE13", "E2sxE13", "E4sxE13", "E6xE13", "E6lenxE13"] {
        if let Some(e) = st.engines.get_mut(name) {
            e.notes.push(format!(
                "per stream: the estimator's vector, every single-field deviation over 13 per-field menus, {} pairs of deviations, the full product 9 hash algorithms x 5 add policies x 3 matching types (x a max_chain=1/min_len=4 variant); states/transitions count streams, traces count (stream, vector) executions",
                if pairs_all { "all" } else { "hash/matching/window/flag" }
            ));
        }
    }
}

// ---------------------------------------------------------------------------------------------
// C09

pub fn run_c09(ctx: &Ctx, st: &mut Local) {
    let comps: Vec<Comp> = {
        let mut v = if ctx.quick() { comp::zlib_grid_quick() } else { comp::zlib_grid_full() };
        v.extend(comp::other_comps());
        v
    };
    let texts: Vec<(usize, usize)> = if ctx.quick() {
        vec![(1, 4096), (2, 4096), (3, 3000), (5, 20_000), (6, 8000), (8, 12_000), (8, 40_000), (9, 12_000), (11, 16_000), (11, 40_000), (13, 10_944),
            (3, 40_000), (14, 80_000), (15, 45_000), (16, 60_000), (17, 60_000)]
    } else {
        vec![(0, 4096), (1, 4096), (2, 4096), (3, 3000), (4, 2048), (8, 12_000), (8, 40_000), (9, 12_000), (9, 40_000), (10, 4000), (11, 16_000), (11, 40_000), (11, 80_000), (13, 10_944), (13, 76_608), (1, 65536), (2, 70000), (8, 140_000), (5, 200_000),
            (3, 40_000), (3, 200_000), (14, 80_000), (14, 210_000), (15, 45_000), (15, 180_000), (12, 60_000), (6, 100_000), (16, 60_000), (16, 200_000), (17, 60_000), (17, 180_000)]
    };
    let mut f = |st: &mut Local, eng: &str, _i: u64, c: &StreamCase, k: &Comp| {
        let fam = k.family();
        let rc = caught(|| ctx.cur.decompress(&c.bytes, true));
        let rr = caught(|| ctx.refb.decompress(&c.bytes, true));
        let acc = |r: &Result<R<Split>, PanicInfo>| matches!(r, Ok(Ok(_)));
        let cls = format!("{}:cur={} ref={}", fam, if acc(&rc) { "accept" } else { "reject" }, if acc(&rr) { "accept" } else { "reject" });
        st.outcome(eng, &cls);
        *st.sums.entry(format!("{}:streams", fam)).or_insert(0) += 1;
        if acc(&rc) {
            *st.sums.entry(format!("{}:accepted_cur", fam)).or_insert(0) += 1;
        }
        if acc(&rr) {
            *st.sums.entry(format!("{}:accepted_ref", fam)).or_insert(0) += 1;
        }
        if eng == "E6" {
            if let Some(t) = c.descr.split(' ').find(|w| w.starts_with("text")) {
                *st.sums.entry(format!("accgroup|{}|{}|n", fam, t)).or_insert(0) += 1;
                if acc(&rc) {
                    *st.sums.entry(format!("accgroup|{}|{}|cur", fam, t)).or_insert(0) += 1;
                }
                if acc(&rr) {
                    *st.sums.entry(format!("accgroup|{}|{}|ref", fam, t)).or_insert(0) += 1;
                }
            }
        }
        if let (Ok(Ok(a)), Ok(Ok(b))) = (&rc, &rr) {
            *st.sums.entry(format!("{}:corr_cur", fam)).or_insert(0) += a.corr.len() as u64;
            *st.sums.entry(format!("{}:corr_ref", fam)).or_insert(0) += b.corr.len() as u64;
            // the same totals per plaintext ("from arbitrary plaintexts": the bound has to hold for a population
            // made of any one of them)
            if eng == "E6" {
                if let Some(t) = c.descr.split(' ').find(|w| w.starts_with("text")) {
                    *st.sums.entry(format!("group|{}|{}|cur", fam, t)).or_insert(0) += a.corr.len() as u64;
                    *st.sums.entry(format!("group|{}|{}|ref", fam, t)).or_insert(0) += b.corr.len() as u64;
                    // zlib: additionally per level (all strategies, window and memory settings of that level)
                    if let Comp::Zlib(l, ..) = k {
                        *st.sums.entry(format!("group|zlib level {}|{}|cur", l, t)).or_insert(0) += a.corr.len() as u64;
                        *st.sums.entry(format!("group|zlib level {}|{}|ref", l, t)).or_insert(0) += b.corr.len() as u64;
                    }
                }
            }
        }
    };
    e6_compgrid(ctx, "E6", &comps, &texts, st, &mut f);
    let sweep = if ctx.quick() { 64 } else { 300 };
    e6_lensweep(ctx, "E6len", &zlib_lensweep_comps(), &[1, 3], sweep, st, &mut f);
}

/// aggregate judgement of C09 after all workers have been merged
pub fn finalize_c09(total: &mut Local) {
    for fam in ["zlib", "zlib-ng", "libdeflate", "miniz_oxide"] {
        let g = |k: &str| *total.sums.get(&format!("{}:{}", fam, k)).unwrap_or(&0);
        let (n, ac, ar, cc, cr) = (g("streams"), g("accepted_cur"), g("accepted_ref"), g("corr_cur"), g("corr_ref"));
        if n == 0 {
            continue;
        }
        let note = format!("{}: streams {} accepted cur {} ref {} corrections cur {} ref {} (over streams both accept)", fam, n, ac, ar, cc, cr);
        total.eng("E6").notes.push(note.clone());
        if (ac as f64) < 0.99 * ar as f64 {
            total.viols.push(Viol {
                property: "C09".into(), engine: "aggregate".into(), index: 0, class: format!("aggregate:acceptance-regressed:{}", fam),
                panic_site: None, detail: note.clone(), input_hex: String::new(),
            });
        }
        if cc as f64 > 1.03 * cr as f64 {
            total.viols.push(Viol {
                property: "C09".into(), engine: "aggregate".into(), index: 0, class: format!("aggregate:corrections-grew:{}", fam),
                panic_site: None, detail: note, input_hex: String::new(),
            });
        }
    }
    // per (compressor family, plaintext): all configurations of the family on that plaintext; for zlib also per
    // (level, plaintext): all strategies / window / memory settings of one level
    let groups: Vec<(String, u64)> = total.sums.iter().filter(|(k, _)| k.starts_with("group|") && k.ends_with("|cur")).map(|(k, v)| (k.clone(), *v)).collect();
    let mut ngroups = 0;
    let mut table = String::new();
    for (k, cur) in groups {
        let rk = format!("{}ref", &k[..k.len() - 3]);
        let rf = *total.sums.get(&rk).unwrap_or(&0);
        ngroups += 1;
        if !k.contains(" level ") {
            table.push_str(&format!("{}={}/{} ", &k[6..k.len() - 4], cur, rf));
        }
        if cur as f64 > 1.03 * rf as f64 + 16.0 {
            let parts: Vec<&str> = k.split('|').collect();
            total.viols.push(Viol {
                property: "C09".into(), engine: "aggregate".into(), index: 0, class: format!("aggregate:corrections-grew:{}:{}", parts[1], parts[2]),
                panic_site: None, detail: format!("{} on plaintext {}: corrections cur {} ref {} over all configurations both builds accept", parts[1], parts[2], cur, rf), input_hex: String::new(),
            });
        }
    }
    // acceptance per (family, plaintext), for groups of at least 50 streams (1 % of a smaller group is less than one stream)
    let agroups: Vec<String> = total.sums.keys().filter(|k| k.starts_with("accgroup|") && k.ends_with("|n")).cloned().collect();
    let mut nacc = 0;
    for k in agroups {
        let base = &k[..k.len() - 1];
        let g = |s: &str| *total.sums.get(&format!("{}{}", base, s)).unwrap_or(&0);
        let (n, ac, ar) = (g("n"), g("cur"), g("ref"));
        if n < 50 {
            continue;
        }
        nacc += 1;
        if (ac as f64) < 0.99 * ar as f64 {
            let parts: Vec<&str> = k.split('|').collect();
            total.viols.push(Viol {
                property: "C09".into(), engine: "aggregate".into(), index: 0, class: format!("aggregate:acceptance-regressed:{}:{}", parts[1], parts[2]),
                panic_site: None, detail: format!("{} on plaintext {}: {} streams, accepted cur {} ref {}", parts[1], parts[2], n, ac, ar), input_hex: String::new(),
            });
        }
    }
    total.eng("E6").notes.push(format!("{} (family, plaintext) groups of >= 50 streams judged with the 1% acceptance bound", nacc));
    total.eng("E6").notes.push(format!("{} (family or zlib level, plaintext) groups judged with the same 3% bound (+16 bytes); cur/ref bytes of the family groups: {}", ngroups, table.trim_end()));
}

// ---------------------------------------------------------------------------------------------
// C10

fn small_alphabet() -> Vec<Vec<Op>> {
    let mut a: Vec<Vec<Op>> = Vec::new();
    for (bits, vals) in [(1u8, vec![0u16, 1]), (4, vec![0, 1, 15]), (8, vec![0, 1, 255]), (16, vec![0, 1, 65535])] {
        for v in vals {
            a.push(vec![Op::Value(bits, v)]);
        }
    }
    for c in 0..7u8 {
        a.push(vec![Op::Mis(c, false)]);
        a.push(vec![Op::Mis(c, true)]);
    }
    for c in 0..10u8 {
        for v in [0u32, 1, 2, 3, 255, 256, 65535, 65536, (1 << 31) - 1] {
            a.push(vec![Op::Corr(c, v)]);
        }
    }
    for n in [1usize, 2, 3, 7, 8, 15, 16, 17] {
        a.push(defaults(n));
    }
    a
}

fn defaults(n: usize) -> Vec<Op> {
    (0..n).map(|i| if i % 3 == 2 { Op::Corr((i % 10) as u8, 0) } else { Op::Mis((i % 7) as u8, false) }).collect()
}

fn big_macros() -> Vec<Vec<Op>> {
    [255usize, 256, 65535, 65536, 70000].iter().map(|&n| defaults(n)).collect()
}

fn c10_one(ctx: &Ctx, st: &mut Local, eng: &str, idx: u64, ops: &[Op]) -> bool {
    match caught(|| ctx.cur.cabac_roundtrip(ops)) {
        Err(p) => {
            st.violation(ctx.viol(eng, idx, "panic", Some(p.loc.clone()), format!("{} on {}", p.msg, ops_brief(ops)), &[]));
            false
        }
        Ok((_n, dec)) => {
            if dec != ops {
                let at = dec.iter().zip(ops.iter()).position(|(a, b)| a != b).unwrap_or(0);
                st.violation(ctx.viol(eng, idx, "decoded-differs", None,
                    format!("operation #{} decodes as {:?} instead of {:?} in {}", at, dec.get(at), ops.get(at), ops_brief(ops)), &[]));
                false
            } else {
                true
            }
        }
    }
}

fn ops_brief(ops: &[Op]) -> String {
    if ops.len() <= 12 {
        format!("{:?}", ops)
    } else {
        format!("{:?} ... ({} ops) ... {:?}", &ops[..4], ops.len(), &ops[ops.len() - 4..])
    }
}

/// fixed warm-up history #k (a fixed recurrence, identical in every run)
fn warmup(k: usize, n: usize) -> Vec<Op> {
    let mut x: u32 = 0xC0FF_EE00 ^ (k as u32).wrapping_mul(0x9E37_79B9);
    let mut next = move || {
        x ^= x << 13;
        x ^= x >> 17;
        x ^= x << 5;
        x
    };
    let mut v = Vec::with_capacity(n);
    for _ in 0..n {
        let r = next();
        let skew = k % 4; // different mixes of default / non-default operations
        v.push(match r % 16 {
            0 => Op::Value(1 + (r >> 8) as u8 % 16, 0).fix(r),
            1..=5 => Op::Mis((r >> 4) as u8 % 7, (r >> 12) % (2 + skew as u32 * 3) == 0),
            _ => {
                let bl = (r >> 6) % 32;
                let val = if (r >> 20) % (1 + skew as u32) != 0 || bl == 0 { 0 } else { (next() >> (32 - bl)) | (1 << (bl - 1)) };
                Op::Corr((r >> 12) as u8 % 10, val & 0x7fff_ffff)
            }
        });
    }
    v
}

trait Fix {
    fn fix(self, r: u32) -> Op;
}
impl Fix for Op {
    fn fix(self, r: u32) -> Op {
        match self {
            Op::Value(b, _) => Op::Value(b, ((r >> 12) as u16) & (((1u32 << b) - 1) as u16)),
            o => o,
        }
    }
}

pub fn run_c10(ctx: &Ctx, st: &mut Local) {
    let small = small_alphabet();
    let big = big_macros();
    // (i) every single correction value v < 2^17 in every context, every width of Value with edge values
    let name = "E10singles";
    if ctx.engine_on(name) {
        let mut idx = 0u64;
        let mut ok = 0u64;
        let lim: u32 = if ctx.quick() { 1 << 17 } else { 1 << 20 };
        for c in 0..10u8 {
            for v in 0..lim {
                let i = idx;
                idx += 1;
                if !ctx.sel.mine(i) {
                    continue;
                }
                if !ctx.take(name, i) {
                    continue;
                }
                if i % 4096 == ctx.sel.shard % 4096 {
                    ctx.begin(name, i, 120_000);
                }
                if c10_one(ctx, st, name, i, &[Op::Corr(c, v)]) {
                    ok += 1;
                }
            }
        }
        for bits in 1..=16u8 {
            for v in 0..(1u32 << bits) {
                let i = idx;
                idx += 1;
                if !ctx.take(name, i) {
                    continue;
                }
                if c10_one(ctx, st, name, i, &[Op::Value(bits, v as u16), Op::Mis(0, true)]) {
                    ok += 1;
                }
            }
        }
        // one smallest and one largest value of every bit length 0..31, in every context
        for c in 0..10u8 {
            for bl in 0..=31u32 {
                for v in [if bl == 0 { 0 } else { 1u32 << (bl - 1) }, if bl == 0 { 0 } else { ((1u64 << bl) - 1) as u32 }] {
                    let i = idx;
                    idx += 1;
                    if !ctx.take(name, i) {
                        continue;
                    }
                    if c10_one(ctx, st, name, i, &[Op::Corr(c, v), Op::Corr(c, v), Op::Mis(1, false)]) {
                        ok += 1;
                    }
                }
            }
        }
        ctx.end();
        let e = st.eng(name);
        e.states += ok;
        e.transitions += ok;
        e.traces += ok;
        e.nontrivial += ok;
        *e.outcomes.entry("lossless".into()).or_insert(0) += ok;
        e.bound = format!("every correction value v < 2^{} in each of the 10 contexts; every value of every width 1..16; smallest and largest value of every bit length 0..31 in every context", if ctx.quick() { 17 } else { 20 });
        e.exhaustive = true;
        e.samples.push("[Corr(3, 65537)]".into());
    }
    // (ii) all sequences up to depth d over the small alphabet; big macros at depth <= 2
    let name = "E10seq";
    if ctx.engine_on(name) {
        let depth = if ctx.quick() { 3 } else { 4 };
        let mut idx = 0u64;
        let mut ok = 0u64;
        let n = small.len();
        let mut seq: Vec<Op> = Vec::new();
        // depth-first over index vectors
        let mut stack: Vec<usize> = Vec::new();
        let mut nodes = 0u64;
        loop {
            // visit current node (stack = sequence of alphabet indices)
            if !stack.is_empty() {
                let i = idx;
                idx += 1;
                if ctx.sel.mine(i) {
                    nodes += 1;
                    if ctx.take(name, i) {
                        seq.clear();
                        for &s in &stack {
                            seq.extend_from_slice(&small[s]);
                        }
                        if nodes % 1024 == 1 {
                            ctx.begin(name, i, 120_000);
                        }
                        if c10_one(ctx, st, name, i, &seq) {
                            ok += 1;
                        }
                    }
                }
            }
            if stack.len() < depth {
                stack.push(0);
                continue;
            }
            // advance
            loop {
                match stack.pop() {
                    None => break,
                    Some(s) => {
                        if s + 1 < n {
                            stack.push(s + 1);
                            break;
                        }
                    }
                }
            }
            if stack.is_empty() {
                break;
            }
        }
        // big macros: all sequences of length <= 2 over small + big where at least one element is big
        let mut all: Vec<&Vec<Op>> = small.iter().collect();
        let nb0 = all.len();
        all.extend(big.iter());
        for a in 0..all.len() {
            for b in 0..=all.len() {
                if a < nb0 && (b == all.len() || b < nb0) {
                    continue;
                }
                let i = idx;
                idx += 1;
                if ctx.sel.mine(i) {
                    nodes += 1;
                }
                if !ctx.take(name, i) {
                    continue;
                }
                seq.clear();
                seq.extend_from_slice(all[a]);
                if b < all.len() {
                    seq.extend_from_slice(all[b]);
                }
                ctx.begin(name, i, 120_000);
                if c10_one(ctx, st, name, i, &seq) {
                    ok += 1;
                }
            }
        }
        ctx.end();
        let e = st.eng(name);
        e.states += nodes;
        e.transitions += nodes;
        e.traces += ok;
        e.nontrivial += ok;
        *e.outcomes.entry("lossless".into()).or_insert(0) += ok;
        e.bound = format!("all operation sequences of length 1..={} over an alphabet of {} operations (Value widths 1/4/8/16 x edge values, 7 misprediction contexts x 2, 10 correction contexts x 9 values incl. 2^31-1, default runs of 1,2,3,7,8,15,16,17); all sequences of length <= 2 that contain a default run of 255, 256, 65535, 65536 or 70000", depth, n);
        e.exhaustive = true;
        e.samples.push(format!("{:?}", [&small[3][0], &small[20][0], &small[60][0]]));
    }
    // (iv) long homogeneous histories: EVERY length of a default run up to a bound, and long repeats of
    // every non-default operation at lengths around all powers of two, each followed by a short tail
    let name = "E10long";
    if ctx.engine_on(name) {
        let tail = [Op::Value(16, 0x1234), Op::Corr(3, 5), Op::Mis(2, true), Op::Corr(1, 0), Op::Value(1, 1)];
        let mut idx = 0u64;
        let mut ok = 0u64;
        let mut nodes = 0u64;
        let maxrun: usize = if ctx.quick() { 40_000 } else { 200_000 };
        let mut seq: Vec<Op> = Vec::with_capacity(maxrun + 8);
        let extra_runs: Vec<usize> = if ctx.quick() { vec![65_534, 65_535, 65_536, 65_537, 70_000, 98_301, 131_071, 131_072] } else { vec![262_143, 262_144, 300_000] };
        for n in (1..=maxrun).chain(extra_runs.into_iter()) {
            let i = idx;
            idx += 1;
            if !ctx.sel.mine(i) {
                continue;
            }
            nodes += 1;
            if !ctx.take(name, i) {
                continue;
            }
            seq.clear();
            seq.extend(defaults(n));
            seq.extend_from_slice(&tail[..1 + n % 5]);
            if nodes % 16 == 1 {
                ctx.begin(name, i, 600_000);
            }
            if c10_one(ctx, st, name, i, &seq) {
                ok += 1;
            }
        }
        let mut lens: Vec<usize> = (1..=64).collect();
        for k in 6..=17u32 {
            for d in [-1i64, 0, 1] {
                lens.push(((1i64 << k) + d) as usize);
            }
        }
        for mlt in 1..=4usize {
            lens.push(32767 * mlt);
            lens.push(10_000 * mlt);
        }
        lens.sort();
        lens.dedup();
        let reps: Vec<Op> = small.iter().filter(|o| o.len() == 1).map(|o| o[0]).filter(|o| !matches!(o, Op::Mis(_, false) | Op::Corr(_, 0))).collect();
        for op in &reps {
            for &n in &lens {
                let i = idx;
                idx += 1;
                if !ctx.sel.mine(i) {
                    continue;
                }
                nodes += 1;
                if !ctx.take(name, i) {
                    continue;
                }
                seq.clear();
                seq.extend(std::iter::repeat(*op).take(n));
                seq.extend_from_slice(&tail);
                ctx.begin(name, i, 600_000);
                if c10_one(ctx, st, name, i, &seq) {
                    ok += 1;
                }
            }
        }
        ctx.end();
        let e = st.eng(name);
        e.states += nodes;
        e.transitions += nodes;
        e.traces += ok;
        e.nontrivial += ok;
        *e.outcomes.entry("lossless".into()).or_insert(0) += ok;
        e.bound = format!("a default run of EVERY length 1..={} (plus a few longer ones around 2^16, 2^17 and multiples of 32767) followed by a short tail; {} non-default operations each repeated n times for n in 1..=64 and around every power of two up to 2^17 (and multiples of 32767 and 10000), followed by a tail", maxrun, reps.len());
        e.exhaustive = true;
        e.samples.push("defaults(32767) ++ [Value(16, 0x1234), Corr(3, 5), Mis(2, true)]".into());
    }
    // (iii) every depth <= 2 sequence after each of 12 fixed warm-up histories
    let name = "E10warm";
    if ctx.engine_on(name) {
        let mut idx = 0u64;
        let mut ok = 0u64;
        let mut nodes = 0u64;
        let nw = if ctx.quick() { 4 } else { 12 };
        let n = small.len();
        for k in 0..nw {
            let w = warmup(k, if ctx.quick() { 600 } else { 2000 });
            for a in 0..n {
                for b in 0..=n {
                    let i = idx;
                    idx += 1;
                    if !ctx.sel.mine(i) {
                        continue;
                    }
                    nodes += 1;
                    if !ctx.take(name, i) {
                        continue;
                    }
                    let mut seq = w.clone();
                    seq.extend_from_slice(&small[a]);
                    if b < n {
                        seq.extend_from_slice(&small[b]);
                    }
                    if nodes % 64 == 1 {
                        ctx.begin(name, i, 120_000);
                    }
                    if c10_one(ctx, st, name, i, &seq) {
                        ok += 1;
                    }
                }
            }
        }
        ctx.end();
        let e = st.eng(name);
        e.states += nodes;
        e.transitions += nodes;
        e.traces += ok;
        e.nontrivial += ok;
        *e.outcomes.entry("lossless".into()).or_insert(0) += ok;
        e.bound = format!("every sequence of length 1..=2 over the {}-operation alphabet appended to each of {} fixed warm-up histories of {} operations (adaptive contexts in non-initial states)", n, nw, if ctx.quick() { 600 } else { 2000 });
        e.exhaustive = true;
        e.samples.push(ops_brief(&warmup(0, 600)));
    }
}
