//! E9 filespace: files assembled from junk, signature look-alikes and wrapped streams.

use crate::comp::Comp;
use crate::model::*;
use crate::streams::text_family;
use crate::wrap::*;

#[derive(Clone)]
pub struct SMenu {
    pub name: &'static str,
    pub stream: Vec<u8>,
    pub plain: Vec<u8>,
}

fn ser1(b: Block, fp: u8) -> Vec<u8> {
    serialise(&Stream { blocks: vec![b], final_pad: fp })
}

/// the stream menu S
pub fn stream_menu() -> Vec<SMenu> {
    let mut v = Vec::new();
    let r = |len: u16, dist: u16| Tok::Ref { len, dist, irr: false };
    // 1. 11-byte RLE stream: 1100 x 'a'
    let rle = vec![Tok::Lit(b'a'), r(258, 1), r(258, 1), r(258, 1), r(258, 1), r(67, 1)];
    let mut p = Vec::new();
    apply_tokens(&mut p, &rle);
    v.push(SMenu { name: "rle1100", stream: ser1(Block::Fixed { toks: rle }, 0), plain: p });
    // 2./3. plaintext of exactly 1024 and 1025 bytes (threshold)
    for n in [1024usize, 1025] {
        let mut t = vec![Tok::Lit(b'b')];
        let mut left = n - 1;
        while left > 0 {
            let l = left.min(258);
            if l < 3 {
                for _ in 0..l {
                    t.push(Tok::Lit(b'b'));
                }
                left -= l;
            } else {
                t.push(r(l as u16, 1));
                left -= l;
            }
        }
        let mut p = Vec::new();
        apply_tokens(&mut p, &t);
        assert_eq!(p.len(), n);
        v.push(SMenu { name: if n == 1024 { "rle1024" } else { "rle1025" }, stream: ser1(Block::Fixed { toks: t }, 0), plain: p });
    }
    // 4./5. text, greedy tokens, fixed and dynamic
    let text = text_family(1, 1500);
    let cfg = LzCfg { lazy: false, max_chain: 32, nice: 258, window: 32768 };
    let toks = lz_tokens(&text, &cfg);
    v.push(SMenu { name: "text-fixed", stream: ser1(Block::Fixed { toks: toks.clone() }, 0), plain: text.clone() });
    v.push(SMenu { name: "text-dynamic", stream: ser1(Block::Dyn { hdr: default_header(&toks), toks: toks.clone() }, 0), plain: text.clone() });
    // 6. stored
    let st = text_family(4, 1100);
    v.push(SMenu { name: "stored1100", stream: ser1(Block::Stored { data: st.clone(), pad: 0 }, 0), plain: st });
    // 7. two blocks + non-zero final padding
    let half = toks.len() / 2;
    v.push(SMenu {
        name: "two-blocks-padded",
        stream: serialise(&Stream {
            blocks: vec![
                Block::Fixed { toks: toks[..half].to_vec() },
                Block::Dyn { hdr: default_header(&toks[half..]), toks: toks[half..].to_vec() },
            ],
            final_pad: 0x55,
        }),
        plain: text.clone(),
    });
    // IDAT-total edge: streams of exactly 1001 / 1002 / 1003 bytes with > 1024 bytes of plaintext, so that
    // one IDAT chunk (stream + 2 + 4 + 12) totals 1019, 1020, 1021 ... see wrapper "png pad" below; here:
    // stored noise + a run, stream length tuned to make a single-chunk IDAT total 1024, 1025 and 1026
    for total in [1024usize, 1025, 1026] {
        // single chunk total = stream + 18; stream = 5 (stored header) + n + fixed block of a run (6 bytes)
        let want = total - 18;
        let mut n = want - 5 - 6;
        loop {
            let noise = text_family(4, n);
            let run = vec![Tok::Lit(b'r'), r(40, 1)];
            let st = serialise(&Stream { blocks: vec![Block::Stored { data: noise.clone(), pad: 0 }, Block::Fixed { toks: run.clone() }], final_pad: 0 });
            if st.len() == want {
                let mut p = noise;
                apply_tokens(&mut p, &run);
                assert!(p.len() > 1024);
                v.push(SMenu { name: match total { 1024 => "idat-total-1024", 1025 => "idat-total-1025", _ => "idat-total-1026" }, stream: st, plain: p });
                break;
            }
            if st.len() > want { n -= 1 } else { n += 1 }
        }
    }
    // streams that are larger than their plaintext: noise as fixed-Huffman literals, many small stored blocks
    {
        let noise = text_family(4, 2000);
        let toks: Vec<Tok> = noise.iter().map(|&b| Tok::Lit(b)).collect();
        v.push(SMenu { name: "noise-as-fixed-literals", stream: ser1(Block::Fixed { toks }, 0), plain: noise.clone() });
        let blocks: Vec<Block> = noise.chunks(50).map(|c| Block::Stored { data: c.to_vec(), pad: 0 }).collect();
        v.push(SMenu { name: "forty-stored-blocks", stream: serialise(&Stream { blocks, final_pad: 0 }), plain: noise });
    }
    // 8.. real compressors on a 2 KiB text
    let t2 = text_family(1, 2048);
    for (name, c) in [
        ("zlib6", Comp::Zlib(6, 0, 15, 8)),
        ("zlib1", Comp::Zlib(1, 0, 15, 8)),
        ("zlibng6", Comp::ZlibNg(6)),
        ("libdeflate6", Comp::Libdeflate(6)),
        ("miniz6", Comp::Miniz(6)),
    ] {
        if let Some(s) = c.run(&t2) {
            v.push(SMenu { name, stream: s, plain: t2.clone() });
        }
    }
    v
}

/// a valid stream the library rejects (single incomplete distance code), > 1024 bytes of plaintext
pub fn rejected_stream() -> SMenu {
    // dynamic block whose distance code has one symbol of length 1 (zlib accepts, the library wants complete codes)
    let r = |len: u16, dist: u16| Tok::Ref { len, dist, irr: false };
    let toks = vec![Tok::Lit(b'q'), r(258, 1), r(258, 1), r(258, 1), r(258, 1), r(100, 1)];
    let mut lf = vec![0u32; 286];
    lf[256] = 1;
    lf[b'q' as usize] = 1;
    lf[257 + len_sym(258, false).0] = 4;
    lf[257 + len_sym(100, false).0] = 1;
    let ll = huff_lengths(&lf, 15);
    let dl = vec![1u8];
    let hdr = header_from_lengths(&ll, &dl);
    let mut p = Vec::new();
    apply_tokens(&mut p, &toks);
    SMenu { name: "rejected-incomplete-dist-code", stream: ser1(Block::Dyn { hdr, toks }, 0), plain: p }
}

pub fn junk_menu() -> Vec<Vec<u8>> {
    vec![
        vec![],
        b"xyz".to_vec(),
        vec![0x78],
        vec![0x78, 0x9c],
        vec![0x78, 0x01, 0x03],
        b"PK".to_vec(),
        vec![0x50, 0x4b, 0x03, 0x04],
        vec![0x1f, 0x8b],
        vec![0x1f, 0x8b, 0x08],
        b"ID".to_vec(),
        b"IDAT".to_vec(),
        vec![0, 0, 0, 4, b'I', b'D', b'A', b'T'],
        vec![0x1f, 0x8b, 0x08, 0x1c, 0, 0, 0, 0, 0, 3, 2, 0],
        vec![0x50, 0x4b, 0x03, 0x04, 20, 0, 0, 0, 8, 0, 0, 0, 0, 0, 0, 0, 0, 0, 0, 0, 0, 0, 0, 0, 0, 0, 0xff, 0xff, 0xff, 0xff],
        vec![0xff; 7],
        vec![0x78, 0xda, 0x78, 0x5e, 0x1f],
        // 16..: tiny *valid* wrapped streams (far below the size threshold) whose final stored block
        // swallows the next 2 / 12 / 32 / 2 / 4 bytes, i.e. the header of the wrapper that follows
        vec![0x78, 0x01, 0x01, 0x02, 0x00, 0xfd, 0xff],
        vec![0x78, 0x9c, 0x01, 0x0c, 0x00, 0xf3, 0xff],
        vec![0x78, 0xda, 0x01, 0x20, 0x00, 0xdf, 0xff],
        vec![0x1f, 0x8b, 0x08, 0x00, 0, 0, 0, 0, 0, 3, 0x01, 0x02, 0x00, 0xfd, 0xff],
        {
            let mut z = vec![0x50, 0x4b, 0x03, 0x04, 20, 0, 0, 0, 8, 0];
            z.extend_from_slice(&[0; 20]);
            z.extend_from_slice(&[0x01, 0x04, 0x00, 0xfb, 0xff]);
            z
        },
        // 21, 22: complete, CRC-valid PNG chunks in front: a stray IDAT chunk with a 3-byte / 1-byte payload (an IDAT
        // run that is too short to be a stream) followed by a different chunk
        {
            let mut z = png_chunk(b"IDAT", &[0x78, 0x9c, 0x03]);
            z.extend_from_slice(&png_chunk(b"tEXt", b"k\0v"));
            z
        },
        {
            let mut z = png_chunk(b"IDAT", &[0x78]);
            z.extend_from_slice(b"--");
            z
        },
        // 23: the file begins like a PNG (signature + IHDR); whatever wrapper follows sits inside a "PNG file"
        {
            let mut z = PNG_SIG.to_vec();
            z.extend_from_slice(&png_ihdr());
            z
        },
    ]
}

#[derive(Clone, Copy, PartialEq, Eq, Debug)]
pub enum WKind {
    Zlib,
    Gzip,
    Zip,
    Png,
}

#[derive(Clone)]
pub struct Wrapper {
    pub kind: WKind,
    pub descr: String,
    /// is this one of the header variants that C06 promises to detect?
    pub supported: bool,
    pub build: std::sync::Arc<dyn Fn(&SMenu) -> Vec<u8> + Send + Sync>,
}

fn field(n: usize, seed: u8) -> Vec<u8> {
    // header field bytes without NUL and without signature bytes
    (0..n).map(|i| b'A' + ((i as u8).wrapping_mul(7).wrapping_add(seed) % 20)).collect()
}

pub fn wrapper_menu(full: bool) -> Vec<Wrapper> {
    use std::sync::Arc;
    let mut v: Vec<Wrapper> = Vec::new();
    for (h, sup) in [([0x78u8, 0x01], true), ([0x78, 0x5e], true), ([0x78, 0x9c], true), ([0x78, 0xda], true), ([0x58, 0x85], false)] {
        v.push(Wrapper {
            kind: WKind::Zlib,
            descr: format!("zlib {:02x}{:02x}", h[0], h[1]),
            supported: sup,
            build: Arc::new(move |s| zlib_wrap(h, &s.stream, &s.plain)),
        });
    }
    let lens: &[usize] = if full { &[0, 1, 5, 300] } else { &[0, 5] };
    for flags in 0..16u32 {
        for &n in lens {
            if flags == 0 && n != lens[0] {
                continue;
            }
            let o = GzOpts {
                ftext: false,
                fhcrc: flags & 1 != 0,
                extra: if flags & 2 != 0 { Some(field(n, 1)) } else { None },
                name: if flags & 4 != 0 { Some(field(n, 2)) } else { None },
                comment: if flags & 8 != 0 { Some(field(n, 3)) } else { None },
                method: 8,
            };
            v.push(Wrapper {
                kind: WKind::Gzip,
                descr: format!("gzip fhcrc={} fextra={} fname={} fcomment={} fieldlen={}", flags & 1, (flags >> 1) & 1, (flags >> 2) & 1, (flags >> 3) & 1, n),
                supported: true,
                build: Arc::new(move |s| gzip_wrap(&o, &s.stream, &s.plain)),
            });
        }
    }
    // FTEXT, an extra field of maximal length, method != 8
    let o = GzOpts { ftext: true, method: 8, ..Default::default() };
    v.push(Wrapper { kind: WKind::Gzip, descr: "gzip ftext".into(), supported: true, build: Arc::new(move |s| gzip_wrap(&o, &s.stream, &s.plain)) });
    if full {
        let o = GzOpts { extra: Some(field(65535, 4)), method: 8, ..Default::default() };
        v.push(Wrapper { kind: WKind::Gzip, descr: "gzip fextra=65535".into(), supported: true, build: Arc::new(move |s| gzip_wrap(&o, &s.stream, &s.plain)) });
    }
    let o = GzOpts { method: 7, ..Default::default() };
    v.push(Wrapper { kind: WKind::Gzip, descr: "gzip method 7".into(), supported: false, build: Arc::new(move |s| gzip_wrap(&o, &s.stream, &s.plain)) });
    let zl: &[usize] = if full { &[0, 1, 9, 300] } else { &[0, 9] };
    for &nl in zl {
        for &el in zl {
            for method in [8u16, 0, 9] {
                if method != 8 && (nl != zl[0] || el != zl[0]) {
                    continue;
                }
                v.push(Wrapper {
                    kind: WKind::Zip,
                    descr: format!("zip method {} name {} extra {}", method, nl, el),
                    supported: method == 8,
                    build: Arc::new(move |s| zip_wrap(method, &field(nl, 5), &field(el, 6), &s.stream, &s.plain)),
                });
            }
        }
    }
    // size fields that do not describe the stream: streamed entry (flag bit 3, zero sizes, data descriptor),
    // zip64 placeholders, sizes that are too small / too large
    for (d, flags, cs, us, desc) in [
        ("streamed entry (bit 3, zero sizes, data descriptor)", 8u16, 0u32, 0u32, true),
        ("zip64 placeholder sizes", 0, 0xffff_ffff, 0xffff_ffff, false),
        ("compressed size field too small", 0, 5, 100, false),
        ("compressed size field too large", 0, 0x00ff_ffff, 0x00ff_ffff, false),
    ] {
        v.push(Wrapper {
            kind: WKind::Zip,
            descr: format!("zip method 8 {}", d),
            supported: true,
            build: Arc::new(move |s| zip_wrap_ex(flags, cs, us, if desc { 0 } else { crc32(&s.plain) }, b"entry.txt", &[], &s.stream, desc, &s.plain)),
        });
    }
    if full {
        v.push(Wrapper {
            kind: WKind::Zip,
            descr: "zip method 8 name 65535 extra 65535".into(),
            supported: true,
            build: Arc::new(move |s| zip_wrap(8, &field(65535, 5), &field(65535, 6), &s.stream, &s.plain)),
        });
    }
    // header field lengths at the boundaries of 8 / 16 bit counters, one field at a time (both tiers)
    for (what, n) in [("fname", 254usize), ("fname", 255), ("fname", 256), ("fname", 1024), ("fname", 70_000), ("fcomment", 255), ("fcomment", 256), ("fcomment", 4096), ("fextra", 255), ("fextra", 256), ("fextra", 32768)] {
        let o = GzOpts {
            extra: if what == "fextra" { Some(field(n, 7)) } else { None },
            name: if what == "fname" { Some(field(n, 8)) } else { None },
            comment: if what == "fcomment" { Some(field(n, 9)) } else { None },
            method: 8,
            ..Default::default()
        };
        v.push(Wrapper { kind: WKind::Gzip, descr: format!("gzip {} of {} bytes", what, n), supported: true, build: Arc::new(move |s| gzip_wrap(&o, &s.stream, &s.plain)) });
    }
    for (nl, el) in [(255usize, 0usize), (256, 0), (0, 255), (0, 256), (32767, 32768), (32768, 32768), (65535, 1), (1, 65535), (40000, 30000)] {
        v.push(Wrapper {
            kind: WKind::Zip,
            descr: format!("zip method 8 name {} extra {}", nl, el),
            supported: true,
            build: Arc::new(move |s| zip_wrap(8, &field(nl, 5), &field(el, 6), &s.stream, &s.plain)),
        });
    }
    // PNG chunkings
    let mut splits: Vec<(String, Vec<usize>)> = vec![
        ("one chunk".into(), vec![]),
        ("split inside zlib header".into(), vec![1]),
        ("split after zlib header".into(), vec![2]),
        ("split mid".into(), vec![600]),
        ("three chunks".into(), vec![300, 700]),
    ];
    if full {
        splits.push(("split at 3".into(), vec![3]));
        splits.push(("many chunks".into(), (1..20).map(|i| i * 53).collect()));
    }
    for (d, sp) in splits {
        for iend in [true, false] {
            let sp2 = sp.clone();
            v.push(Wrapper {
                kind: WKind::Png,
                descr: format!("png {} iend={}", d, iend),
                supported: true,
                build: Arc::new(move |s| {
                    let z = zlib_wrap([0x78, 0x9c], &s.stream, &s.plain);
                    png_wrap(&z, &sp2, iend)
                }),
            });
        }
    }
    // a bare run of IDAT chunks without PNG signature / IHDR (with empty prefix junk it starts at offset 0)
    for (d, sp) in [("one chunk", vec![]), ("two chunks", vec![500usize])] {
        let sp2 = sp.clone();
        v.push(Wrapper {
            kind: WKind::Png,
            descr: format!("bare IDAT run, {}", d),
            supported: true,
            build: Arc::new(move |s| {
                let z = zlib_wrap([0x78, 0x9c], &s.stream, &s.plain);
                idat_chunks(&z, &sp2)
            }),
        });
    }
    // IDAT payloads whose zlib header announces a window below 32K (libpng writes these for small images)
    for h in [[0x58u8, 0x85], [0x48, 0x89], [0x68, 0x81], [0x08, 0x1d], [0x78, 0x01], [0x78, 0x20], [0x78, 0xbb]] {
        v.push(Wrapper {
            kind: WKind::Png,
            descr: format!("png IDAT zlib header {:02x}{:02x}", h[0], h[1]),
            supported: true,
            build: Arc::new(move |s| {
                let z = zlib_wrap(h, &s.stream, &s.plain);
                png_wrap(&z, &[700], true)
            }),
        });
    }
    // split inside the Adler-32 (relative to the end)
    for back in [1usize, 2, 4, 5] {
        v.push(Wrapper {
            kind: WKind::Png,
            descr: format!("png split {} bytes before the end", back),
            supported: true,
            build: Arc::new(move |s| {
                let z = zlib_wrap([0x78, 0x9c], &s.stream, &s.plain);
                let cut = z.len() - back;
                png_wrap(&z, &[cut], true)
            }),
        });
    }
    v
}

/// PNG wrappers outside the supported envelope (C01 must still round-trip them)
pub fn png_odd_menu() -> Vec<Wrapper> {
    use std::sync::Arc;
    let mut v: Vec<Wrapper> = Vec::new();
    // zero-length chunk at several positions
    for (d, sp) in [("first", vec![0usize]), ("middle", vec![500, 500]), ("last", vec![usize::MAX])] {
        let sp2 = sp.clone();
        v.push(Wrapper {
            kind: WKind::Png,
            descr: format!("png zero-length IDAT chunk {}", d),
            supported: false,
            build: Arc::new(move |s| {
                let z = zlib_wrap([0x78, 0x9c], &s.stream, &s.plain);
                png_wrap(&z, &sp2, true)
            }),
        });
    }
    // k bytes after the last IDAT chunk
    for k in 0..=9usize {
        v.push(Wrapper {
            kind: WKind::Png,
            descr: format!("png {} bytes after the last IDAT chunk", k),
            supported: k == 0 || k >= 8,
            build: Arc::new(move |s| {
                let z = zlib_wrap([0x78, 0x9c], &s.stream, &s.plain);
                let mut f = png_wrap(&z, &[400], false);
                f.extend(std::iter::repeat(0x41).take(k));
                f
            }),
        });
    }
    // bad CRC
    v.push(Wrapper {
        kind: WKind::Png,
        descr: "png bad IDAT crc".into(),
        supported: false,
        build: Arc::new(move |s| {
            let z = zlib_wrap([0x78, 0x9c], &s.stream, &s.plain);
            let mut f = png_wrap(&z, &[], true);
            let n = f.len();
            f[n - 13] ^= 0x01; // last byte of the IDAT crc (IEND chunk is 12 bytes)
            f
        }),
    });
    // a zlib trailer that is not the Adler-32 of the plaintext, chunk CRCs valid (one chunk / two chunks / split inside
    // the trailer)
    for (d, sp) in [("one chunk", vec![]), ("two chunks", vec![300usize]), ("split inside the trailer", vec![usize::MAX - 2])] {
        let sp2 = sp.clone();
        v.push(Wrapper {
            kind: WKind::Png,
            descr: format!("png zlib trailer is not the Adler-32 of the data, {}", d),
            supported: false,
            build: Arc::new(move |s| {
                let mut z = zlib_wrap([0x78, 0x9c], &s.stream, &s.plain);
                let n = z.len();
                for b in &mut z[n - 4..] {
                    *b ^= 0x5a;
                }
                let sp3: Vec<usize> = sp2.iter().map(|&x| if x > usize::MAX / 2 { n - (usize::MAX - x) } else { x }).collect();
                png_wrap(&z, &sp3, true)
            }),
        });
    }
    // an IDAT run of more than 1024 bytes whose plaintext is empty (250 empty stored blocks), one chunk / two chunks
    for (d, sp) in [("one chunk", vec![]), ("two chunks", vec![700usize])] {
        let sp2 = sp.clone();
        v.push(Wrapper {
            kind: WKind::Png,
            descr: format!("png 250 empty stored blocks (empty plaintext, > 1024 bytes of IDAT), {}", d),
            supported: false,
            build: Arc::new(move |_s| {
                let st = Stream { blocks: (0..250).map(|_| Block::Stored { data: vec![], pad: 0 }).collect(), final_pad: 0 };
                let z = zlib_wrap([0x78, 0x01], &serialise(&st), &[]);
                png_wrap(&z, &sp2, true)
            }),
        });
    }
    // k bytes between the end of the stream and the Adler-32
    for k in [1usize, 3, 4] {
        v.push(Wrapper {
            kind: WKind::Png,
            descr: format!("png {} bytes between stream end and adler32", k),
            supported: false,
            build: Arc::new(move |s| {
                let mut z = vec![0x78, 0x9c];
                z.extend_from_slice(&s.stream);
                z.extend(std::iter::repeat(0xee).take(k));
                z.extend_from_slice(&adler32(&s.plain).to_be_bytes());
                png_wrap(&z, &[], true)
            }),
        });
    }
    // tiny IDAT payloads (total payload 0..=8 bytes)
    for n in 0..=8usize {
        v.push(Wrapper {
            kind: WKind::Png,
            descr: format!("png IDAT payload of {} bytes", n),
            supported: false,
            build: Arc::new(move |_s| {
                let payload: Vec<u8> = [0x78u8, 0x9c, 0x03, 0x00, 0x00, 0x00, 0x00, 0x01].iter().cloned().take(n).collect();
                let mut f = PNG_SIG.to_vec();
                f.extend_from_slice(&png_ihdr());
                f.extend_from_slice(&png_chunk(b"IDAT", &payload));
                f.extend_from_slice(&png_chunk(b"IEND", &[]));
                f
            }),
        });
    }
    // the 4-byte length field of the first / second IDAT chunk replaced by extreme values
    for which in 0..2usize {
        for val in [0xffff_ffffu32, 0xffff_fff8, 0xffff_fff4, 0xffff_fff3, 0x8000_0000, 0x7fff_ffff, 0x0001_0000] {
            v.push(Wrapper {
                kind: WKind::Png,
                descr: format!("png IDAT chunk #{} length field replaced by {:#x}", which, val),
                supported: false,
                build: Arc::new(move |s| {
                    let z = zlib_wrap([0x78, 0x9c], &s.stream, &s.plain);
                    let cut = z.len() / 2;
                    let mut f = png_wrap(&z, &[cut], true);
                    // chunk #0 starts after the 8-byte signature and the 25-byte IHDR chunk
                    let pos = if which == 0 { 33 } else { 33 + 12 + cut };
                    f[pos..pos + 4].copy_from_slice(&val.to_be_bytes());
                    f
                }),
            });
        }
    }
    // a bare look-alike chunk header with an extreme length in front of 0 / 20 bytes
    for val in [0xffff_ffffu32, 0xffff_fff8, 0xffff_fff4] {
        for tail in [0usize, 4, 20] {
            v.push(Wrapper {
                kind: WKind::Png,
                descr: format!("bare IDAT header with length {:#x} and {} bytes behind it", val, tail),
                supported: false,
                build: Arc::new(move |_s| {
                    let mut f = b"ab".to_vec();
                    f.extend_from_slice(&val.to_be_bytes());
                    f.extend_from_slice(b"IDAT");
                    f.extend((1..=tail as u8).map(|x| x));
                    f
                }),
            });
        }
    }
    // an accepted zlib stream whose last four bytes are the length field of an IDAT chunk that follows
    // immediately (the IDAT look-back reaches into bytes that were already consumed)
    v.push(Wrapper {
        kind: WKind::Png,
        descr: "zlib stream whose tail is the length field of a following IDAT chunk".into(),
        supported: false,
        build: Arc::new(move |s| {
            let inner = zlib_wrap([0x78, 0x9c], &s.stream, &s.plain);
            let len_be = (inner.len() as u32).to_be_bytes();
            let mut data = crate::streams::text_family(4, 1100);
            let n = data.len();
            data[n - 4..].copy_from_slice(&len_be);
            let mut f = vec![0x78, 0x9c];
            f.extend_from_slice(&serialise(&Stream { blocks: vec![Block::Stored { data, pad: 0 }], final_pad: 0 }));
            let mut body = b"IDAT".to_vec();
            body.extend_from_slice(&inner);
            f.extend_from_slice(&body);
            f.extend_from_slice(&crc32(&body).to_be_bytes());
            f.extend_from_slice(b"trailing");
            f
        }),
    });
    // zip header whose extra / name field runs past EOF
    for (d, nl, el) in [("extra", 0u16, 65535u16), ("name", 65535, 0), ("both", 9, 400)] {
        v.push(Wrapper {
            kind: WKind::Zip,
            descr: format!("zip local header with {} length past EOF", d),
            supported: false,
            build: Arc::new(move |_s| {
                let mut f = vec![0x50, 0x4b, 0x03, 0x04, 20, 0, 0, 0, 8, 0, 0, 0, 0, 0];
                f.extend_from_slice(&[0; 12]);
                f.extend_from_slice(&nl.to_le_bytes());
                f.extend_from_slice(&el.to_le_bytes());
                f.extend_from_slice(b"abc");
                f
            }),
        });
    }
    v
}

/// parser for the expanded container format (version byte, then chunks)
#[derive(Debug, Clone, PartialEq, Eq)]
pub enum Chunk {
    Literal(Vec<u8>),
    Deflate { plain: Vec<u8>, corr: Vec<u8> },
    Png { sizes: Vec<u32>, plain: Vec<u8>, corr: Vec<u8> },
}

pub fn parse_container(c: &[u8]) -> Option<Vec<Chunk>> {
    fn varint(c: &[u8], p: &mut usize) -> Option<u32> {
        let mut r: u32 = 0;
        let mut sh = 0;
        loop {
            let b = *c.get(*p)?;
            *p += 1;
            r |= ((b & 0x7f) as u32).checked_shl(sh)?;
            sh += 7;
            if b & 0x80 == 0 {
                return Some(r);
            }
        }
    }
    fn take<'a>(c: &'a [u8], p: &mut usize, n: usize) -> Option<&'a [u8]> {
        let s = c.get(*p..p.checked_add(n)?)?;
        *p += n;
        Some(s)
    }
    let mut p = 1;
    if c.first() != Some(&1) {
        return None;
    }
    let mut out = Vec::new();
    while p < c.len() {
        let tag = c[p];
        p += 1;
        match tag {
            0 => {
                let n = varint(c, &mut p)? as usize;
                out.push(Chunk::Literal(take(c, &mut p, n)?.to_vec()));
            }
            1 | 2 => {
                let mut sizes = Vec::new();
                if tag == 2 {
                    loop {
                        let s = varint(c, &mut p)?;
                        if s == 0 {
                            break;
                        }
                        sizes.push(s);
                    }
                    take(c, &mut p, 6)?;
                }
                let n = varint(c, &mut p)? as usize;
                let plain = take(c, &mut p, n)?.to_vec();
                let m = varint(c, &mut p)? as usize;
                let corr = take(c, &mut p, m)?.to_vec();
                out.push(if tag == 1 { Chunk::Deflate { plain, corr } } else { Chunk::Png { sizes, plain, corr } });
            }
            _ => return None,
        }
    }
    Some(out)
}
