//! Reference model of the DEFLATE format (RFC 1951), written from the RFC and
//! sharing no code with the subject. It only *writes* streams and knows their
//! plaintext; zlib's inflate validates every stream it produces (see comp.rs).

/// LSB-first bit writer.
#[derive(Default, Clone)]
pub struct BitW {
    pub out: Vec<u8>,
    acc: u64,
    n: u32,
}

impl BitW {
    pub fn new() -> Self {
        Self::default()
    }
    /// writes the low `nbits` of `v`, least significant bit first
    pub fn put(&mut self, v: u32, nbits: u32) {
        debug_assert!(nbits <= 32);
        if nbits == 0 {
            return;
        }
        let v = (v as u64) & ((1u64 << nbits) - 1);
        self.acc |= v << self.n;
        self.n += nbits;
        while self.n >= 8 {
            self.out.push(self.acc as u8);
            self.acc >>= 8;
            self.n -= 8;
        }
    }
    /// writes a Huffman code (given MSB-first as in the RFC) of `len` bits
    pub fn put_code(&mut self, code: u32, len: u32) {
        let mut r = 0u32;
        for i in 0..len {
            r |= ((code >> i) & 1) << (len - 1 - i);
        }
        self.put(r, len);
    }
    /// number of bits pending in the current partial byte (0..7)
    pub fn pending(&self) -> u32 {
        self.n
    }
    /// fills the rest of the current byte with the low bits of `pad`
    pub fn align(&mut self, pad: u8) {
        if self.n != 0 {
            let k = 8 - self.n;
            self.put(pad as u32, k);
        }
    }
    pub fn bytes(&mut self, b: &[u8]) {
        debug_assert!(self.n == 0);
        self.out.extend_from_slice(b);
    }
    pub fn finish(mut self, pad: u8) -> Vec<u8> {
        self.align(pad);
        self.out
    }
}

#[derive(Clone, Copy, Debug, PartialEq, Eq)]
pub enum Tok {
    Lit(u8),
    /// `irr`: length 258 coded as symbol 284 with extra bits 31 (only legal when len == 258)
    Ref { len: u16, dist: u16, irr: bool },
}

#[derive(Clone, Debug, PartialEq, Eq)]
pub struct DynHeader {
    /// number of literal/length code lengths transmitted (257..=288)
    pub hlit: usize,
    /// number of distance code lengths transmitted (1..=32)
    pub hdist: usize,
    /// number of code-length-code lengths transmitted (4..=19)
    pub hclen: usize,
    /// code lengths (0..=7) of the code length alphabet, indexed by symbol
    pub clc: [u8; 19],
    /// run-length coded sequence: (symbol 0..=18, argument). For symbols < 16 the
    /// argument is ignored; 16: repeat previous 3..=6; 17: zeros 3..=10; 18: zeros 11..=138
    pub items: Vec<(u8, u8)>,
}

impl DynHeader {
    /// expands the items into the hlit+hdist code lengths
    pub fn expand(&self) -> Vec<u8> {
        let mut v: Vec<u8> = Vec::new();
        for &(s, a) in &self.items {
            match s {
                0..=15 => v.push(s),
                16 => {
                    let p = *v.last().unwrap_or(&0);
                    for _ in 0..a {
                        v.push(p);
                    }
                }
                _ => {
                    for _ in 0..a {
                        v.push(0);
                    }
                }
            }
        }
        v
    }
    pub fn lit_dist(&self) -> (Vec<u8>, Vec<u8>) {
        let v = self.expand();
        // lengths beyond hlit + hdist (a run that overshoots) are not part of either code
        let l = v[..self.hlit.min(v.len())].to_vec();
        let d = if v.len() > self.hlit {
            v[self.hlit..(self.hlit + self.hdist).min(v.len())].to_vec()
        } else {
            vec![]
        };
        (l, d)
    }
}

#[derive(Clone, Debug, PartialEq, Eq)]
pub enum Block {
    /// `pad`: value of the bits between the block header and LEN
    Stored { data: Vec<u8>, pad: u8 },
    Fixed { toks: Vec<Tok> },
    Dyn { toks: Vec<Tok>, hdr: DynHeader },
}

#[derive(Clone, Debug, PartialEq, Eq)]
pub struct Stream {
    pub blocks: Vec<Block>,
    /// value of the padding bits after the last block
    pub final_pad: u8,
}

pub const LEN_BASE: [u16; 29] = [
    3, 4, 5, 6, 7, 8, 9, 10, 11, 13, 15, 17, 19, 23, 27, 31, 35, 43, 51, 59, 67, 83, 99, 115, 131,
    163, 195, 227, 258,
];
pub const LEN_EXTRA: [u8; 29] = [
    0, 0, 0, 0, 0, 0, 0, 0, 1, 1, 1, 1, 2, 2, 2, 2, 3, 3, 3, 3, 4, 4, 4, 4, 5, 5, 5, 5, 0,
];
pub const DIST_BASE: [u16; 30] = [
    1, 2, 3, 4, 5, 7, 9, 13, 17, 25, 33, 49, 65, 97, 129, 193, 257, 385, 513, 769, 1025, 1537,
    2049, 3073, 4097, 6145, 8193, 12289, 16385, 24577,
];
pub const DIST_EXTRA: [u8; 30] = [
    0, 0, 0, 0, 1, 1, 2, 2, 3, 3, 4, 4, 5, 5, 6, 6, 7, 7, 8, 8, 9, 9, 10, 10, 11, 11, 12, 12, 13,
    13,
];
pub const CLC_ORDER: [usize; 19] = [
    16, 17, 18, 0, 8, 7, 9, 6, 10, 5, 11, 4, 12, 3, 13, 2, 14, 1, 15,
];

/// (length symbol index 0..28, extra value) for a match length; `irr` picks 284+31 for 258
pub fn len_sym(len: u16, irr: bool) -> (usize, u32) {
    if irr {
        assert_eq!(len, 258);
        return (27, 31);
    }
    if len == 258 {
        return (28, 0);
    }
    let mut i = 27;
    while LEN_BASE[i] > len {
        i -= 1;
    }
    (i, (len - LEN_BASE[i]) as u32)
}

pub fn dist_sym(dist: u16) -> (usize, u32) {
    let mut i = 29;
    while DIST_BASE[i] > dist {
        i -= 1;
    }
    (i, (dist - DIST_BASE[i]) as u32)
}

/// canonical Huffman codes (RFC 1951 section 3.2.2), MSB-first
pub fn canonical(lengths: &[u8]) -> Vec<u32> {
    let mut bl_count = [0u32; 17];
    for &l in lengths {
        bl_count[l as usize] += 1;
    }
    bl_count[0] = 0;
    let mut next = [0u32; 17];
    let mut code = 0u32;
    for b in 1..=16 {
        code = (code + bl_count[b - 1]) << 1;
        next[b] = code;
    }
    let mut out = vec![0u32; lengths.len()];
    for (i, &l) in lengths.iter().enumerate() {
        if l != 0 {
            out[i] = next[l as usize];
            next[l as usize] += 1;
        }
    }
    out
}

pub fn fixed_lit_lengths() -> Vec<u8> {
    let mut v = vec![8u8; 288];
    for x in v.iter_mut().take(256).skip(144) {
        *x = 9;
    }
    for x in v.iter_mut().take(280).skip(256) {
        *x = 7;
    }
    v
}

/// Kraft sum scaled by 2^15; a complete code sums to 2^15
pub fn kraft(lengths: &[u8]) -> u32 {
    lengths
        .iter()
        .filter(|&&l| l != 0)
        .map(|&l| 1u32 << (15 - l as u32))
        .sum()
}

struct Codes {
    ll: Vec<u8>,
    lc: Vec<u32>,
    dl: Vec<u8>,
    dc: Vec<u32>,
}

fn write_tokens(w: &mut BitW, toks: &[Tok], c: &Codes) {
    for t in toks {
        match *t {
            Tok::Lit(b) => w.put_code(c.lc[b as usize], c.ll[b as usize] as u32),
            Tok::Ref { len, dist, irr } => {
                let (ls, le) = len_sym(len, irr);
                w.put_code(c.lc[257 + ls], c.ll[257 + ls] as u32);
                w.put(le, LEN_EXTRA[ls] as u32);
                let (ds, de) = dist_sym(dist);
                w.put_code(c.dc[ds], c.dl[ds] as u32);
                w.put(de, DIST_EXTRA[ds] as u32);
            }
        }
    }
    w.put_code(c.lc[256], c.ll[256] as u32);
}

/// true if every symbol the tokens need has a code in the header
pub fn header_covers(hdr: &DynHeader, toks: &[Tok]) -> bool {
    let (ll, dl) = hdr.lit_dist();
    let need_l = |i: usize| i < ll.len() && ll[i] != 0;
    let need_d = |i: usize| i < dl.len() && dl[i] != 0;
    if !need_l(256) {
        return false;
    }
    for t in toks {
        match *t {
            Tok::Lit(b) => {
                if !need_l(b as usize) {
                    return false;
                }
            }
            Tok::Ref { len, dist, irr } => {
                if !need_l(257 + len_sym(len, irr).0) || !need_d(dist_sym(dist).0) {
                    return false;
                }
            }
        }
    }
    true
}

pub fn write_dyn_header(w: &mut BitW, h: &DynHeader) {
    w.put((h.hlit - 257) as u32, 5);
    w.put((h.hdist - 1) as u32, 5);
    w.put((h.hclen - 4) as u32, 4);
    for i in 0..h.hclen {
        w.put(h.clc[CLC_ORDER[i]] as u32, 3);
    }
    let cc = canonical(&h.clc);
    for &(s, a) in &h.items {
        w.put_code(cc[s as usize], h.clc[s as usize] as u32);
        match s {
            16 => w.put(a as u32 - 3, 2),
            17 => w.put(a as u32 - 3, 3),
            18 => w.put(a as u32 - 11, 7),
            _ => {}
        }
    }
}

pub fn serialise(s: &Stream) -> Vec<u8> {
    let mut w = BitW::new();
    let n = s.blocks.len();
    for (i, b) in s.blocks.iter().enumerate() {
        w.put((i + 1 == n) as u32, 1);
        match b {
            Block::Stored { data, pad } => {
                w.put(0, 2);
                w.align(*pad);
                let l = data.len() as u16;
                w.bytes(&l.to_le_bytes());
                w.bytes(&(!l).to_le_bytes());
                w.bytes(data);
            }
            Block::Fixed { toks } => {
                w.put(1, 2);
                let ll = fixed_lit_lengths();
                let dl = vec![5u8; 32];
                let c = Codes {
                    lc: canonical(&ll),
                    dc: canonical(&dl),
                    ll,
                    dl,
                };
                write_tokens(&mut w, toks, &c);
            }
            Block::Dyn { toks, hdr } => {
                w.put(2, 2);
                write_dyn_header(&mut w, hdr);
                let (mut ll, mut dl) = hdr.lit_dist();
                ll.resize(288, 0);
                dl.resize(32, 0);
                let c = Codes {
                    lc: canonical(&ll),
                    dc: canonical(&dl),
                    ll,
                    dl,
                };
                write_tokens(&mut w, toks, &c);
            }
        }
    }
    w.finish(s.final_pad)
}

pub fn apply_tokens(out: &mut Vec<u8>, toks: &[Tok]) {
    for t in toks {
        match *t {
            Tok::Lit(b) => out.push(b),
            Tok::Ref { len, dist, .. } => {
                let st = out.len() - dist as usize;
                for i in 0..len as usize {
                    let b = out[st + i];
                    out.push(b);
                }
            }
        }
    }
}

pub fn plaintext(s: &Stream) -> Vec<u8> {
    let mut out = Vec::new();
    for b in &s.blocks {
        match b {
            Block::Stored { data, .. } => out.extend_from_slice(data),
            Block::Fixed { toks } | Block::Dyn { toks, .. } => apply_tokens(&mut out, toks),
        }
    }
    out
}

// ---------------------------------------------------------------------------------------------
// default dynamic header construction

/// Huffman code lengths limited to `limit` bits, complete (Kraft equality) whenever at
/// least two symbols are used; symbols with zero frequency get length 0.
pub fn huff_lengths(freq: &[u32], limit: u8) -> Vec<u8> {
    let n = freq.len();
    let mut used: Vec<usize> = (0..n).filter(|&i| freq[i] > 0).collect();
    let mut out = vec![0u8; n];
    if used.is_empty() {
        return out;
    }
    if used.len() == 1 {
        out[used[0]] = 1;
        return out;
    }
    // plain Huffman via repeated minimum extraction (alphabets are tiny)
    #[derive(Clone)]
    struct Node {
        w: u64,
        kids: Option<(usize, usize)>,
        sym: usize,
    }
    let mut nodes: Vec<Node> = used
        .iter()
        .map(|&s| Node {
            w: freq[s] as u64,
            kids: None,
            sym: s,
        })
        .collect();
    let mut live: Vec<usize> = (0..nodes.len()).collect();
    while live.len() > 1 {
        live.sort_by(|&a, &b| nodes[b].w.cmp(&nodes[a].w).then(b.cmp(&a)));
        let a = live.pop().unwrap();
        let b = live.pop().unwrap();
        nodes.push(Node {
            w: nodes[a].w + nodes[b].w,
            kids: Some((a, b)),
            sym: 0,
        });
        live.push(nodes.len() - 1);
    }
    let mut stack = vec![(live[0], 0u8)];
    while let Some((i, d)) = stack.pop() {
        match nodes[i].kids {
            Some((a, b)) => {
                stack.push((a, d + 1));
                stack.push((b, d + 1));
            }
            None => out[nodes[i].sym] = d.max(1),
        }
    }
    // enforce the limit (miniz-style): clamp, then repair the Kraft sum
    let maxl = *out.iter().max().unwrap();
    if maxl > limit {
        let mut cnt = vec![0u32; limit as usize + 1];
        for &s in &used {
            cnt[out[s].min(limit) as usize] += 1;
        }
        let mut total: u64 = 0;
        for l in 1..=limit as usize {
            total += (cnt[l] as u64) << (limit as usize - l);
        }
        while total != 1u64 << limit {
            cnt[limit as usize] -= 1;
            for l in (1..limit as usize).rev() {
                if cnt[l] > 0 {
                    cnt[l] -= 1;
                    cnt[l + 1] += 2;
                    break;
                }
            }
            total -= 1;
        }
        // hand out lengths: most frequent symbols get the shortest codes
        used.sort_by(|&a, &b| freq[b].cmp(&freq[a]).then(a.cmp(&b)));
        let mut it = used.iter();
        for l in 1..=limit as usize {
            for _ in 0..cnt[l] {
                out[*it.next().unwrap()] = l as u8;
            }
        }
    }
    out
}

/// zlib-like greedy run-length coding of a code length vector
pub fn default_rle(lengths: &[u8]) -> Vec<(u8, u8)> {
    let mut items = Vec::new();
    let mut i = 0;
    while i < lengths.len() {
        let v = lengths[i];
        let mut run = 1;
        while i + run < lengths.len() && lengths[i + run] == v {
            run += 1;
        }
        let mut left = run;
        if v == 0 {
            while left >= 11 {
                let k = left.min(138);
                items.push((18, k as u8));
                left -= k;
            }
            if left >= 3 {
                items.push((17, left as u8));
                left = 0;
            }
            for _ in 0..left {
                items.push((0, 0));
            }
        } else {
            items.push((v, 0));
            left -= 1;
            while left >= 3 {
                let k = left.min(6);
                items.push((16, k as u8));
                left -= k;
            }
            for _ in 0..left {
                items.push((v, 0));
            }
        }
        i += run;
    }
    items
}

/// completes a code-length-code so that it is a full prefix code over at least two symbols
pub fn clc_for_items(items: &[(u8, u8)]) -> [u8; 19] {
    let mut f = [0u32; 19];
    for &(s, _) in items {
        f[s as usize] += 1;
    }
    if f.iter().filter(|&&x| x > 0).count() < 2 {
        // add an unused companion symbol so the code is complete
        let extra = if f[0] == 0 { 0 } else { 1 };
        f[extra] = 1;
    }
    let l = huff_lengths(&f, 7);
    let mut out = [0u8; 19];
    out.copy_from_slice(&l);
    out
}

pub fn min_hclen(clc: &[u8; 19]) -> usize {
    let mut n = 19;
    while n > 4 && clc[CLC_ORDER[n - 1]] == 0 {
        n -= 1;
    }
    n
}

/// header from explicit literal/length and distance code lengths
pub fn header_from_lengths(ll: &[u8], dl: &[u8]) -> DynHeader {
    let mut all = ll.to_vec();
    all.extend_from_slice(dl);
    let items = default_rle(&all);
    let clc = clc_for_items(&items);
    DynHeader {
        hlit: ll.len(),
        hdist: dl.len(),
        hclen: min_hclen(&clc),
        clc,
        items,
    }
}

/// literal/length and distance code lengths for a token list (both complete codes)
pub fn default_lengths(toks: &[Tok]) -> (Vec<u8>, Vec<u8>) {
    let mut lf = vec![0u32; 286];
    let mut df = vec![0u32; 30];
    lf[256] = 1;
    for t in toks {
        match *t {
            Tok::Lit(b) => lf[b as usize] += 1,
            Tok::Ref { len, dist, irr } => {
                lf[257 + len_sym(len, irr).0] += 1;
                df[dist_sym(dist).0] += 1;
            }
        }
    }
    if lf.iter().filter(|&&x| x > 0).count() < 2 {
        lf[0] += 1;
    }
    // like zlib: at least two distance codes so that the code is complete
    let mut k = 0;
    while df.iter().filter(|&&x| x > 0).count() < 2 {
        if df[k] == 0 {
            df[k] = 1;
        }
        k += 1;
    }
    let mut ll = huff_lengths(&lf, 15);
    let mut dl = huff_lengths(&df, 15);
    while ll.len() > 257 && *ll.last().unwrap() == 0 {
        ll.pop();
    }
    while dl.len() > 1 && *dl.last().unwrap() == 0 {
        dl.pop();
    }
    (ll, dl)
}

pub fn default_header(toks: &[Tok]) -> DynHeader {
    let (ll, dl) = default_lengths(toks);
    header_from_lengths(&ll, &dl)
}

// ---------------------------------------------------------------------------------------------
// a deliberately simple LZ77 tokeniser, used only to produce *default* token sequences

#[derive(Clone, Copy, Debug)]
pub struct LzCfg {
    pub lazy: bool,
    pub max_chain: usize,
    pub nice: usize,
    pub window: usize,
}

fn longest(p: &[u8], pos: usize, cands: &[usize], cfg: &LzCfg) -> Option<(usize, usize)> {
    let maxl = (p.len() - pos).min(258);
    if maxl < 3 {
        return None;
    }
    let mut best: Option<(usize, usize)> = None;
    for (k, &c) in cands.iter().rev().enumerate() {
        if k >= cfg.max_chain || pos - c > cfg.window {
            break;
        }
        let mut l = 0;
        while l < maxl && p[c + l] == p[pos + l] {
            l += 1;
        }
        if l >= 3 && best.map_or(true, |(bl, _)| l > bl) {
            best = Some((l, pos - c));
            if l >= cfg.nice {
                break;
            }
        }
    }
    best
}

pub fn lz_tokens(p: &[u8], cfg: &LzCfg) -> Vec<Tok> {
    use std::collections::BTreeMap;
    let mut table: BTreeMap<[u8; 3], Vec<usize>> = BTreeMap::new();
    let mut toks = Vec::new();
    let mut pos = 0;
    let ins = |table: &mut BTreeMap<[u8; 3], Vec<usize>>, i: usize| {
        if i + 3 <= p.len() {
            table.entry([p[i], p[i + 1], p[i + 2]]).or_default().push(i);
        }
    };
    let empty: Vec<usize> = Vec::new();
    while pos < p.len() {
        let find = |table: &BTreeMap<[u8; 3], Vec<usize>>, at: usize| {
            if at + 3 > p.len() {
                return None;
            }
            let c = table.get(&[p[at], p[at + 1], p[at + 2]]).unwrap_or(&empty);
            longest(p, at, c, cfg)
        };
        let m = find(&table, pos);
        match m {
            Some((l, d)) => {
                let mut take = true;
                if cfg.lazy && l < cfg.nice && pos + 1 < p.len() {
                    ins(&mut table, pos);
                    if let Some((l2, _)) = find(&table, pos + 1) {
                        if l2 > l {
                            take = false;
                        }
                    }
                    if !take {
                        toks.push(Tok::Lit(p[pos]));
                        pos += 1;
                        continue;
                    }
                    for i in pos + 1..pos + l {
                        ins(&mut table, i);
                    }
                } else {
                    for i in pos..pos + l {
                        ins(&mut table, i);
                    }
                }
                toks.push(Tok::Ref {
                    len: l as u16,
                    dist: d as u16,
                    irr: false,
                });
                pos += l;
            }
            None => {
                ins(&mut table, pos);
                toks.push(Tok::Lit(p[pos]));
                pos += 1;
            }
        }
    }
    toks
}
