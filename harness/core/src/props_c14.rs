//! C14: determinism across call histories and processes, and a controlled scheduler over
//! real OS threads (baton passing at the hook points compiled into the library).

use crate::files::*;
use crate::rt::*;
use crate::streams::text_family;
use std::cell::Cell;
use std::io::{Read, Write};
use std::sync::{Condvar, Mutex};

pub fn fnv(data: &[u8]) -> u64 {
    let mut h: u64 = 0xcbf29ce484222325;
    for &b in data {
        h ^= b as u64;
        h = h.wrapping_mul(0x100000001b3);
    }
    h
}

pub struct Inputs {
    pub blobs: Vec<Vec<u8>>,
}

const B_FSMALL: usize = 0;
const B_FPNG: usize = 1;
const B_CONT: usize = 2;
const B_S1: usize = 3;
const B_PLAIN: usize = 4;
const B_CORR: usize = 5;
const B_Z: usize = 6;
const B_FBIG: usize = 7;
const B_SBIG: usize = 8;
const B_CONT2: usize = 9;
const B_Z2: usize = 10;
const B_HASH0: usize = 11;
const B_NOFCS: usize = 13;
const B_BIGFILE: usize = 14;
const B_ZEROS: usize = 15;
const B_RUNS: usize = 16;

pub const NCALLS: usize = 24;
/// call that processes a 20 MiB input: only used as the first element of two-call histories
pub const BIG_CALL: usize = 20;

impl Inputs {
    pub fn build(s: &dyn Subject) -> Inputs {
        let streams = stream_menu();
        let wr = wrapper_menu(false);
        let fsmall = {
            let mut b = b"ab".to_vec();
            b.extend_from_slice(&(wr[2].build)(&streams[0]));
            b.extend_from_slice(b"PK");
            b
        };
        let fpng = (wr.iter().find(|w| w.kind == WKind::Png).unwrap().build)(&streams[5]);
        let cont = s.expand(&fsmall).unwrap_or_default();
        let s1 = streams[4].stream.clone();
        let (plain, corr) = match s.decompress(&s1, true) {
            Ok(r) => (r.plain, r.corr),
            Err(_) => (vec![], vec![]),
        };
        let z = s.compress_zstd(&fsmall).unwrap_or_default();
        let big = text_family(1, 65536);
        let sbig = crate::comp::zlib_deflate_raw(&big, 6, 0, 15, 8).unwrap();
        let fbig = crate::wrap::zlib_wrap([0x78, 0x9c], &sbig, &big);
        let cont2 = s.expand(&fpng).unwrap_or_default();
        let z2 = s.compress_zstd(&fpng).unwrap_or_default();
        let mut blobs = vec![fsmall, fpng, cont, s1, plain, corr, z, fbig, sbig, cont2, z2];
        blobs.extend(forced_hash_inputs(s));
        // the expanded form of the small file as a hand-made zstd frame: no content size in the header,
        // one raw block (valid zstd input that compress_zstd itself never writes)
        let c = blobs[B_CONT].clone();
        let mut nofcs = vec![0x28, 0xb5, 0x2f, 0xfd, 0x00, 0x38];
        let bh = ((c.len() as u32) << 3) | 1;
        nofcs.extend_from_slice(&bh.to_le_bytes()[..3]);
        nofcs.extend_from_slice(&c);
        blobs.push(nofcs);
        // 20 MiB of signature-free, moderately compressible bytes
        let unit = text_family(6, 1 << 16);
        let big: Vec<u8> = unit.iter().cycle().take(20 << 20).cloned().collect();
        blobs.push(big);
        // low-entropy streams of more than 64 KiB of plaintext: every hash candidate of the estimator ties on them
        let zeros = vec![0u8; 128 << 10];
        blobs.push(crate::comp::zlib_deflate_raw(&zeros, 6, 0, 15, 8).unwrap());
        let runs = text_family(3, 100_000);
        blobs.push(crate::comp::zlib_deflate_raw(&runs, 1, 0, 15, 8).unwrap());
        Inputs { blobs }
    }
    pub fn save(&self, path: &str) {
        self.save_opt(path, false)
    }
    /// `with_big`: include the 20 MiB blob (only the child that runs the big call needs it)
    pub fn save_opt(&self, path: &str, with_big: bool) {
        let mut out = Vec::new();
        let empty: Vec<u8> = Vec::new();
        for (k, b) in self.blobs.iter().enumerate() {
            let b = if k == B_BIGFILE && !with_big { &empty } else { b };
            out.extend_from_slice(&(b.len() as u64).to_le_bytes());
            out.extend_from_slice(b);
        }
        std::fs::write(path, out).unwrap();
    }
    pub fn load(path: &str) -> Inputs {
        let d = std::fs::read(path).unwrap();
        let mut p = 0;
        let mut blobs = Vec::new();
        while p < d.len() {
            let n = u64::from_le_bytes(d[p..p + 8].try_into().unwrap()) as usize;
            blobs.push(d[p + 8..p + 8 + n].to_vec());
            p += 8 + n;
        }
        Inputs { blobs }
    }
}

/// a stream with references and the estimator's parameter vector for it; calls 13..=18 code its
/// corrections under that vector with the hash algorithm replaced by 2..=7, so that the output of every
/// hash function (and of any table it builds lazily) decides the digest
fn forced_hash_inputs(s: &dyn Subject) -> Vec<Vec<u8>> {
    // a tiny stream: the time between the start barrier and the first hash computation is a few
    // microseconds, so threads that start together also reach lazily initialised state together
    use crate::model::*;
    let mut toks: Vec<Tok> = b"abcdefgh".iter().map(|&c| Tok::Lit(c)).collect();
    toks.push(Tok::Ref { len: 8, dist: 8, irr: false });
    toks.push(Tok::Lit(b'x'));
    toks.push(Tok::Ref { len: 5, dist: 12, irr: false });
    toks.push(Tok::Lit(b'y'));
    let stream = serialise(&Stream { blocks: vec![Block::Fixed { toks }], final_pad: 0 });
    let v = match caught(|| s.estimate(&stream)) {
        Ok(Ok(v)) => v,
        _ => vec![0, 0, 1, 15, 1, 5, 32767, 16383, 32767, 0, 0, 8, 16, 128, 128, 3, 0, 0],
    };
    let vb: Vec<u8> = v.iter().flat_map(|x| x.to_le_bytes()).collect();
    vec![stream, vb]
}

pub const CALL_NAMES: [&str; NCALLS] = [
    "expand(zlib file)", "expand(png file)", "recreate(container)", "decompress(stream, verify=true)", "decompress(stream, verify=false)",
    "recompress(plain, corrections)", "compress_zstd(zlib file)", "decompress_zstd(frame)", "expand(64 KiB zlib file)", "decompress(64 KiB stream, verify=true)",
    "recreate(png container)", "WrapperDecompressZip(frame of the png file)", "WrapperDecompressZip(frame of the zlib file)",
    "corrections(stream, hash=MiniZFast)", "corrections(stream, hash=Libdeflate4)", "corrections(stream, hash=Libdeflate4Fast)",
    "corrections(stream, hash=ZlibNG)", "corrections(stream, hash=RandomVector)", "corrections(stream, hash=Crc32c)",
    "decompress_zstd(frame without content size)", "compress_zstd(20 MiB file)",
    "decompress(stream of 128 KiB zeros, verify=true)", "decompress(zlib-1 stream of 100 KB of runs, verify=true)",
    "decompress_zstd(frame, capacity 16)",
];

fn dres<T: AsRef<[u8]>>(r: Result<R<T>, PanicInfo>) -> u64 {
    match r {
        Ok(Ok(v)) => fnv(v.as_ref()),
        Ok(Err(e)) => fnv(format!("Err{}:{}", e.code, e.msg).as_bytes()) ^ 0x1111,
        Err(p) => fnv(format!("panic{}", p.loc).as_bytes()) ^ 0x2222,
    }
}

fn dsplit(r: Result<R<Split>, PanicInfo>) -> u64 {
    match r {
        Ok(Ok(v)) => fnv(&v.plain) ^ fnv(&v.corr).rotate_left(17) ^ (v.size as u64).wrapping_mul(0x9E3779B97F4A7C15),
        Ok(Err(e)) => fnv(format!("Err{}:{}", e.code, e.msg).as_bytes()) ^ 0x1111,
        Err(p) => fnv(format!("panic{}", p.loc).as_bytes()) ^ 0x2222,
    }
}

/// executes call `id`; `io`: optional yield hook for the harness I/O objects
pub fn call(s: &dyn Subject, id: usize, inp: &Inputs) -> u64 {
    let b = &inp.blobs;
    match id {
        0 => dres(caught(|| s.expand(&b[B_FSMALL]))),
        1 => dres(caught(|| s.expand(&b[B_FPNG]))),
        2 => dres(caught(|| recreate_yielding(s, &b[B_CONT]))),
        3 => dsplit(caught(|| s.decompress(&b[B_S1], true))),
        4 => dsplit(caught(|| s.decompress(&b[B_S1], false))),
        5 => dres(caught(|| s.recompress(&b[B_PLAIN], &b[B_CORR]))),
        6 => dres(caught(|| s.compress_zstd(&b[B_FSMALL]))),
        7 => dres(caught(|| s.decompress_zstd(&b[B_Z], 1 << 20))),
        8 => dres(caught(|| s.expand(&b[B_FBIG]))),
        9 => dsplit(caught(|| s.decompress(&b[B_SBIG], true))),
        10 => dres(caught(|| recreate_yielding(s, &b[B_CONT2]))),
        11 => dres(caught(|| c_decompress(s, &b[B_Z2], b[B_FPNG].len() + 64))),
        12 => dres(caught(|| c_decompress(s, &b[B_Z], b[B_FSMALL].len() + 64))),
        19 => dres(caught(|| s.decompress_zstd(&b[B_NOFCS], 1 << 20))),
        20 => dres(caught(|| s.compress_zstd(&b[B_BIGFILE]))),
        21 => dsplit(caught(|| s.decompress(&b[B_ZEROS], true))),
        22 => dsplit(caught(|| s.decompress(&b[B_RUNS], true))),
        // a capacity far below the expanded size: Err, whatever happened before
        23 => dres(caught(|| s.decompress_zstd(&b[B_Z], 16))),
        13..=18 => {
            let mut v: Vec<u32> = b[B_HASH0 + 1].chunks(4).map(|c| u32::from_le_bytes(c.try_into().unwrap())).collect();
            v[4] = (id - 13 + 2) as u32;
            v[5] = 0;
            v[6] = 0;
            match caught(|| s.corrections_with_params(&b[B_HASH0], &v)) {
                Ok(Ok((plain, corr, n))) => fnv(&plain) ^ fnv(&corr).rotate_left(13) ^ n as u64,
                Ok(Err(e)) => fnv(format!("Err{}:{}", e.code, e.msg).as_bytes()) ^ 0x1111,
                Err(p) => fnv(format!("panic{}", p.loc).as_bytes()) ^ 0x2222,
            }
        }
        _ => unreachable!(),
    }
}

/// WrapperDecompressZip through the C ABI into a fresh buffer
fn c_decompress(s: &dyn Subject, frame: &[u8], cap: usize) -> R<Vec<u8>> {
    let mut out = vec![0u8; cap];
    let mut rs: u64 = 0;
    let rc = unsafe { s.c_decompress(frame.as_ptr(), frame.len() as u64, out.as_mut_ptr(), cap as u64, &mut rs) };
    if rc == 0 && rs as usize <= cap {
        out.truncate(rs as usize);
        Ok(out)
    } else {
        Err(SErr { code: rc, msg: format!("status {} result_size {}", rc, rs) })
    }
}

struct YRead<'a>(std::io::Cursor<&'a [u8]>);
impl<'a> Read for YRead<'a> {
    fn read(&mut self, buf: &mut [u8]) -> std::io::Result<usize> {
        sched_yield(100);
        self.0.read(buf)
    }
}
struct YWrite(Vec<u8>);
impl Write for YWrite {
    fn write(&mut self, buf: &[u8]) -> std::io::Result<usize> {
        sched_yield(101);
        self.0.write(buf)
    }
    fn flush(&mut self) -> std::io::Result<()> {
        Ok(())
    }
}

fn recreate_yielding(s: &dyn Subject, cont: &[u8]) -> R<Vec<u8>> {
    let mut r = YRead(std::io::Cursor::new(cont));
    let mut w = YWrite(Vec::new());
    s.recreate(&mut r, &mut w)?;
    Ok(w.0)
}

/// child process entry: prints one line per call to stderr
pub fn digest_main(s: &dyn Subject, inputs_path: &str, which: &str) {
    let inp = Inputs::load(inputs_path);
    let ids: Vec<usize> = if which == "all" { (0..NCALLS).filter(|i| *i != BIG_CALL).collect() } else { vec![which.parse().unwrap()] };
    for id in ids {
        eprintln!("DIGEST {} {:016x}", id, call(s, id, &inp));
    }
}

static FU_ARRIVED: std::sync::atomic::AtomicUsize = std::sync::atomic::AtomicUsize::new(0);
static FU_N: std::sync::atomic::AtomicUsize = std::sync::atomic::AtomicUsize::new(0);
thread_local! {
    static FU_ARMED: Cell<bool> = const { Cell::new(false) };
}

/// second barrier inside the library: the first time an armed thread reaches the start of a block
/// prediction / reconstruction (hook points 30, 32: the tables are allocated, hashing starts next)
fn firstuse_hook(site: u32) {
    use std::sync::atomic::Ordering::SeqCst;
    if site != 30 && site != 32 {
        return;
    }
    if !FU_ARMED.with(|a| a.replace(false)) {
        return;
    }
    FU_ARRIVED.fetch_add(1, SeqCst);
    let t0 = std::time::Instant::now();
    while FU_ARRIVED.load(SeqCst) < FU_N.load(SeqCst) {
        std::hint::spin_loop();
        if t0.elapsed().as_millis() > 50 {
            break;
        }
    }
}

/// child process entry: `n` threads start call `id` at the same moment (first use of the state that
/// only this call touches); prints one digest per thread. Threads warm up with sibling calls that run
/// the same code with other parameters (calls 13..=18 differ only in the hash algorithm), then meet at
/// a spinning barrier before the call and again at the library's hook point right before hashing starts.
pub fn firstuse_main(s: &dyn Subject, inputs_path: &str, id: usize, n: usize) {
    use std::sync::atomic::Ordering::SeqCst;
    let inp = Inputs::load(inputs_path);
    FU_N.store(n, SeqCst);
    s.set_sched_hook(Some(firstuse_hook));
    let arrived = std::sync::atomic::AtomicUsize::new(0);
    let ds: Vec<u64> = std::thread::scope(|sc| {
        let hs: Vec<_> = (0..n)
            .map(|_| {
                sc.spawn(|| {
                    if (13..=18).contains(&id) {
                        for w in (13..=18).filter(|w| *w != id) {
                            let _ = call(s, w, &inp);
                            let _ = call(s, w, &inp);
                        }
                    }
                    arrived.fetch_add(1, SeqCst);
                    while arrived.load(SeqCst) < n {
                        std::hint::spin_loop();
                    }
                    FU_ARMED.with(|a| a.set(true));
                    call(s, id, &inp)
                })
            })
            .collect();
        hs.into_iter().map(|h| h.join().unwrap_or(0)).collect()
    });
    s.set_sched_hook(None);
    for d in ds {
        eprintln!("DIGEST {} {:016x}", id, d);
    }
}

fn child_firstuse(inputs_path: &str, id: usize, n: usize) -> Result<Vec<u64>, String> {
    let exe = std::env::current_exe().map_err(|e| e.to_string())?;
    let out = std::process::Command::new(&exe).arg("firstuse").arg(inputs_path).arg(id.to_string()).arg(n.to_string()).output().map_err(|e| format!("spawn: {}", e))?;
    let text = String::from_utf8_lossy(&out.stderr).to_string();
    let v: Vec<u64> = text.lines().filter_map(|l| {
        let p: Vec<&str> = l.split_whitespace().collect();
        if p.len() == 3 && p[0] == "DIGEST" { u64::from_str_radix(p[2], 16).ok() } else { None }
    }).collect();
    if v.len() != n {
        return Err(format!("child failed: status {:?}, stderr {}", out.status, &text[..text.len().min(300)]));
    }
    Ok(v)
}

fn child_digests(inputs_path: &str, which: &str, envs: &[(&str, &str)], no_aslr: bool) -> Result<Vec<(usize, u64)>, String> {
    let exe = std::env::current_exe().map_err(|e| e.to_string())?;
    let mut cmd = if no_aslr {
        let mut c = std::process::Command::new("setarch");
        c.arg(std::env::consts::ARCH).arg("-R").arg(&exe);
        c
    } else {
        std::process::Command::new(&exe)
    };
    cmd.arg("digest").arg(inputs_path).arg(which);
    for (k, v) in envs {
        if *k == "__one_cpu" {
            // the child may run on one CPU only (std::thread::available_parallelism() == 1 there)
            use std::os::unix::process::CommandExt;
            unsafe {
                cmd.pre_exec(|| {
                    let mut cur: libc::cpu_set_t = std::mem::zeroed();
                    if libc::sched_getaffinity(0, std::mem::size_of::<libc::cpu_set_t>(), &mut cur) == 0 {
                        let first = (0..libc::CPU_SETSIZE as usize).find(|&c| libc::CPU_ISSET(c, &cur)).unwrap_or(0);
                        let mut one: libc::cpu_set_t = std::mem::zeroed();
                        libc::CPU_SET(first, &mut one);
                        libc::sched_setaffinity(0, std::mem::size_of::<libc::cpu_set_t>(), &one);
                    }
                    Ok(())
                });
            }
            continue;
        }
        cmd.env(k, v);
    }
    let out = cmd.output().map_err(|e| format!("spawn: {}", e))?;
    let text = String::from_utf8_lossy(&out.stderr).to_string();
    let mut v = Vec::new();
    for l in text.lines() {
        let p: Vec<&str> = l.split_whitespace().collect();
        if p.len() == 3 && p[0] == "DIGEST" {
            v.push((p[1].parse().unwrap(), u64::from_str_radix(p[2], 16).unwrap()));
        }
    }
    if !out.status.success() || v.is_empty() {
        return Err(format!("child failed: status {:?}, stderr {}", out.status, &text[..text.len().min(400)]));
    }
    Ok(v)
}

// ---------------------------------------------------------------------------------------------
// controlled scheduler

#[derive(Clone, Debug)]
pub struct Point {
    pub enabled: Vec<usize>,
    pub chosen: usize,
    pub running_enabled: bool,
    pub site: u32,
}

struct Sched {
    active: bool,
    current: usize,
    finished: Vec<bool>,
    prefix: Vec<usize>,
    points: Vec<Point>,
    diverged: Option<String>,
}

static SCHED: Mutex<Option<Sched>> = Mutex::new(None);
static CV: Condvar = Condvar::new();

thread_local! {
    static MY_TID: Cell<Option<usize>> = const { Cell::new(None) };
}

fn decide(s: &mut Sched, me: usize, me_enabled: bool, site: u32) {
    let mut enabled: Vec<usize> = Vec::new();
    if me_enabled {
        enabled.push(me);
    }
    for t in 0..s.finished.len() {
        if !s.finished[t] && !(me_enabled && t == me) && t != me {
            enabled.push(t);
        }
    }
    if enabled.is_empty() {
        return;
    }
    let step = s.points.len();
    let choice = if step < s.prefix.len() { s.prefix[step] } else { 0 };
    if choice >= enabled.len() {
        s.diverged = Some(format!("choice {} out of range ({} enabled) at step {}", choice, enabled.len(), step));
        s.current = enabled[0];
        s.points.push(Point { enabled, chosen: 0, running_enabled: me_enabled, site });
        return;
    }
    s.current = enabled[choice];
    s.points.push(Point { enabled, chosen: choice, running_enabled: me_enabled, site });
}

/// scheduling point (installed as the library's hook and called by the harness I/O objects)
pub fn sched_yield(site: u32) {
    let me = match MY_TID.with(|t| t.get()) {
        Some(t) => t,
        None => return,
    };
    let mut g = SCHED.lock().unwrap_or_else(|e| e.into_inner());
    let s = match g.as_mut() {
        Some(s) if s.active => s,
        _ => return,
    };
    decide(s, me, true, site);
    CV.notify_all();
    loop {
        let cur = g.as_ref().map(|s| s.current);
        if cur == Some(me) || cur.is_none() {
            return;
        }
        g = CV.wait(g).unwrap_or_else(|e| e.into_inner());
    }
}

thread_local! {
    /// time warp: (site, milliseconds) - this thread sleeps once when it reaches the hook site
    static TW: Cell<Option<(u32, u64)>> = const { Cell::new(None) };
    /// sites seen by this thread while recording
    static TW_SEEN: std::cell::RefCell<Option<Vec<u32>>> = const { std::cell::RefCell::new(None) };
}

/// the one hook installed for the whole C14 run: time warp (per thread), then the baton scheduler
fn hook(site: u32) {
    TW_SEEN.with(|v| {
        if let Some(v) = v.borrow_mut().as_mut() {
            if !v.contains(&site) {
                v.push(site);
            }
        }
    });
    if let Some((s, ms)) = TW.with(|t| t.get()) {
        if s == site {
            TW.with(|t| t.set(None));
            std::thread::sleep(std::time::Duration::from_millis(ms));
        }
    }
    // rendezvous: the first time a member of a group reaches its site it waits for all the others (or 3 s)
    let rv = RV.with(|r| {
        let mut r = r.borrow_mut();
        if r.as_ref().map_or(false, |(s, _)| *s == site) {
            r.take()
        } else {
            None
        }
    });
    if let Some((_, group)) = rv {
        group.arrive();
    }
    sched_yield(site);
}

pub struct Rendezvous {
    n: usize,
    count: std::sync::Mutex<usize>,
    cv: std::sync::Condvar,
    pub complete: std::sync::atomic::AtomicBool,
}

impl Rendezvous {
    fn new(n: usize) -> Rendezvous {
        Rendezvous { n, count: std::sync::Mutex::new(0), cv: std::sync::Condvar::new(), complete: std::sync::atomic::AtomicBool::new(false) }
    }
    fn arrive(&self) {
        let mut c = self.count.lock().unwrap_or_else(|e| e.into_inner());
        *c += 1;
        if *c >= self.n {
            self.complete.store(true, std::sync::atomic::Ordering::SeqCst);
            self.cv.notify_all();
            return;
        }
        let deadline = std::time::Instant::now() + std::time::Duration::from_secs(3);
        while *c < self.n {
            let now = std::time::Instant::now();
            if now >= deadline {
                break;
            }
            let (g, _) = self.cv.wait_timeout(c, deadline - now).unwrap_or_else(|e| e.into_inner());
            c = g;
        }
    }
}

thread_local! {
    static RV: std::cell::RefCell<Option<(u32, std::sync::Arc<Rendezvous>)>> = const { std::cell::RefCell::new(None) };
}

pub struct Execution {
    pub points: Vec<Point>,
    pub results: Vec<Vec<u64>>,
    pub diverged: Option<String>,
}

/// runs the thread bodies (lists of call ids) under the schedule prefix
pub fn run_schedule(s: &dyn Subject, inp: &Inputs, bodies: &[Vec<usize>], prefix: &[usize], private_copies: bool) -> Execution {
    let n = bodies.len();
    {
        let mut g = SCHED.lock().unwrap_or_else(|e| e.into_inner());
        *g = Some(Sched { active: true, current: 0, finished: vec![false; n], prefix: prefix.to_vec(), points: Vec::new(), diverged: None });
    }
    s.set_sched_hook(Some(hook));
    let results: Vec<Vec<u64>> = std::thread::scope(|sc| {
        let mut hs = Vec::new();
        for (t, body) in bodies.iter().enumerate() {
            let body = body.clone();
            hs.push(sc.spawn(move || {
                MY_TID.with(|x| x.set(Some(t)));
                let own;
                let inp: &Inputs = if private_copies {
                    own = Inputs { blobs: inp.blobs.clone() };
                    &own
                } else {
                    inp
                };
                // wait for the baton
                {
                    let mut g = SCHED.lock().unwrap_or_else(|e| e.into_inner());
                    while g.as_ref().map(|s| s.current) != Some(t) {
                        g = CV.wait(g).unwrap_or_else(|e| e.into_inner());
                    }
                }
                let mut out = Vec::new();
                for &c in &body {
                    out.push(call(s, c, inp));
                }
                // finished: hand the baton on
                {
                    let mut g = SCHED.lock().unwrap_or_else(|e| e.into_inner());
                    if let Some(sd) = g.as_mut() {
                        sd.finished[t] = true;
                        decide(sd, t, false, 999);
                    }
                    CV.notify_all();
                }
                MY_TID.with(|x| x.set(None));
                out
            }));
        }
        hs.into_iter().map(|h| h.join().unwrap_or_default()).collect()
    });
    let mut g = SCHED.lock().unwrap_or_else(|e| e.into_inner());
    let sd = g.take().unwrap();
    Execution { points: sd.points, results, diverged: sd.diverged }
}

fn preemptions(points: &[Point], upto: usize) -> usize {
    points[..upto].iter().filter(|p| p.running_enabled && p.chosen != 0).count()
}

pub struct Explorer<'a> {
    pub s: &'a dyn Subject,
    pub inp: &'a Inputs,
    pub bodies: Vec<Vec<usize>>,
    pub expected: Vec<Vec<u64>>,
    pub bound: usize,
    pub private_copies: bool,
    pub executions: u64,
    pub points_total: u64,
    pub failures: Vec<(Vec<usize>, String)>,
    pub max_exec: u64,
    pub capped: bool,
    /// called before every execution (resets the per-execution watchdog)
    pub tick: &'a dyn Fn(),
}

impl<'a> Explorer<'a> {
    pub fn explore(&mut self, prefix: Vec<usize>) {
        if self.executions >= self.max_exec {
            self.capped = true;
            return;
        }
        (self.tick)();
        let x = run_schedule(self.s, self.inp, &self.bodies, &prefix, self.private_copies);
        self.executions += 1;
        self.points_total += x.points.len() as u64;
        if let Some(d) = &x.diverged {
            self.failures.push((prefix.clone(), format!("schedule diverged while replaying a prefix: {}", d)));
            return;
        }
        if x.results != self.expected {
            if self.failures.len() < 8 {
                let mut which = String::new();
                for (t, (a, b)) in x.results.iter().zip(self.expected.iter()).enumerate() {
                    for (k, (u, v)) in a.iter().zip(b.iter()).enumerate() {
                        if u != v {
                            which.push_str(&format!(" thread {} call {} ({})", t, k, CALL_NAMES[self.bodies[t][k]]));
                        }
                    }
                }
                let choices: Vec<usize> = x.points.iter().map(|p| p.chosen).collect();
                self.failures.push((choices, format!("result differs from the sequential result:{}", which)));
            }
            return;
        }
        let choices: Vec<usize> = x.points.iter().map(|p| p.chosen).collect();
        for i in prefix.len()..x.points.len() {
            let p = &x.points[i];
            let before = preemptions(&x.points, i);
            for alt in 1..p.enabled.len() {
                let cost = before + if p.running_enabled { 1 } else { 0 };
                if cost > self.bound {
                    continue;
                }
                let mut np = choices[..i].to_vec();
                np.push(alt);
                self.explore(np);
            }
        }
    }
}

// ---------------------------------------------------------------------------------------------
// the check

pub fn run_c14(ctx: &Ctx, st: &mut Local) {
    let s = ctx.cur;
    let t_start = std::time::Instant::now();
    let timing = std::env::var("PFV_TIMING").is_ok();
    static INP: std::sync::OnceLock<Inputs> = std::sync::OnceLock::new();
    let inp_shared: &Inputs = INP.get_or_init(|| Inputs::build(s));
    let inp = Inputs { blobs: inp_shared.blobs.clone() };
    // sequential expectation (in this process, one thread)
    // computed once per process, by one worker while the others wait: no two workers are inside the library before the
    // first engine starts (a deadlock between concurrent calls must surface inside a case, where it can be attributed)
    static SEQ: std::sync::OnceLock<Vec<u64>> = std::sync::OnceLock::new();
    let seq: Vec<u64> = SEQ.get_or_init(|| (0..NCALLS).map(|id| call(s, id, &inp)).collect()).clone();

    // (0) rendezvous (first: every worker starts here, so a deadlock between concurrent calls is met inside these cases): N threads run the same call and meet at one hook site inside it, so that all N are inside the same
    // region of the library at the same moment (admission limits, pools, per-call slots: N = 16, 17, 33, ...)
    if timing { eprintln!("T{} {:.1}s before rendezvous", ctx.thread, t_start.elapsed().as_secs_f64()); }
    let name = "rendezvous";
    if ctx.engine_on(name) {
        s.set_sched_hook(Some(hook));
        let ns: &[usize] = if ctx.quick() { &[16, 17] } else { &[2, 3, 8, 16, 17, 32, 33, 64] };
        let mut idx = 0u64;
        for id in [0usize, 1, 2, 3, 5, 6, 7, 11] {
            TW_SEEN.with(|v| *v.borrow_mut() = Some(Vec::new()));
            let _ = call(s, id, &inp);
            let sites: Vec<u32> = TW_SEEN.with(|v| v.borrow_mut().take().unwrap_or_default());
            for site in sites {
                if site >= 100 {
                    continue;
                }
                for &n in ns {
                    let i = idx;
                    idx += 1;
                    if ctx.sel.mine(i) {
                        count(ctx, name, st, i);
                    }
                    if !ctx.take(name, i) {
                        continue;
                    }
                    st.sample(name, || format!("#{} {} threads in {} meet at hook site {}", i, n, CALL_NAMES[id], site));
                    ctx.begin(name, i, 60_000);
                    let group = std::sync::Arc::new(Rendezvous::new(n));
                    let inp_ref = &inp;
                    let res: Vec<u64> = std::thread::scope(|sc| {
                        let hs: Vec<_> = (0..n)
                            .map(|_| {
                                let g = group.clone();
                                sc.spawn(move || {
                                    RV.with(|r| *r.borrow_mut() = Some((site, g)));
                                    let d = call(s, id, inp_ref);
                                    RV.with(|r| *r.borrow_mut() = None);
                                    d
                                })
                            })
                            .collect();
                        hs.into_iter().map(|h| h.join().unwrap_or(0)).collect()
                    });
                    ctx.end();
                    let bad = res.iter().filter(|d| **d != seq[id]).count();
                    if bad > 0 {
                        st.violation(ctx.viol(name, i, "concurrent-result-differs", None,
                            format!("{} of {} threads that ran {} and met at hook site {} returned a result different from the sequential one", bad, n, CALL_NAMES[id], site), &[]));
                    } else if group.complete.load(std::sync::atomic::Ordering::SeqCst) {
                        st.outcome(name, "all-met-and-agree");
                    } else {
                        st.outcome(name, "agree(rendezvous-incomplete-after-3s)");
                    }
                }
            }
        }
        let e = st.eng(name);
        e.bound = format!("8 calls x every hook site the call reaches x N in {:?} threads that all wait for each other at that site (3 s cap), then run on freely; results compared with the sequential digest; a deadlock is a hang", ns);
        e.exhaustive = true;
    }

    // (1) histspace: all call sequences of length <= 3
    if timing { eprintln!("T{} {:.1}s before histspace", ctx.thread, t_start.elapsed().as_secs_f64()); }
    let name = "histspace";
    if ctx.engine_on(name) {
        // baseline: every call as the first call of a fresh process
        let path = format!("/verif/target/run/c14_inputs_{}_{}.bin", std::process::id(), ctx.thread);
        let _ = std::fs::create_dir_all("/verif/target/run");
        inp.save(&path);
        let mut fresh = vec![0u64; NCALLS];
        let mut idx = 0u64;
        for id in 0..NCALLS {
            let i = idx;
            idx += 1;
            // every worker needs the baseline; only the owner counts it
            let r = if id == BIG_CALL {
                if ctx.take(name, i) {
                    let pb = format!("{}.big", path);
                    inp.save_opt(&pb, true);
                    let r = child_digests(&pb, &id.to_string(), &[], false);
                    let _ = std::fs::remove_file(&pb);
                    r
                } else {
                    Ok(vec![(id, seq[id])])
                }
            } else {
                // computed once per process (the first worker to get here), shared by all workers
                static FRESH: std::sync::OnceLock<std::sync::Mutex<std::collections::HashMap<usize, Result<Vec<(usize, u64)>, String>>>> = std::sync::OnceLock::new();
                let m = FRESH.get_or_init(|| std::sync::Mutex::new(std::collections::HashMap::new()));
                let mut g = m.lock().unwrap_or_else(|e| e.into_inner());
                g.entry(id).or_insert_with(|| child_digests(&path, &id.to_string(), &[], false)).clone()
            };
            match r {
                Ok(v) => fresh[id] = v[0].1,
                Err(e) => crate::streams::harness_bug(&format!("cannot run digest child: {}", e)),
            }
            if ctx.take(name, i) {
                count(ctx, name, st, i);
                if fresh[id] != seq[id] {
                    st.violation(ctx.viol(name, i, "fresh-process-differs", None,
                        format!("{} gives a different result as the first call of a fresh process than in this process", CALL_NAMES[id]), &[]));
                } else {
                    st.outcome(name, "same-as-fresh-process");
                }
            }
        }
        let maxlen = 3;
        let mut hist: Vec<usize> = Vec::new();
        fn rec(ctx: &Ctx, st: &mut Local, s: &dyn Subject, inp: &Inputs, fresh: &[u64], hist: &mut Vec<usize>, maxlen: usize, idx: &mut u64) {
            if !hist.is_empty() {
                let i = *idx;
                *idx += 1;
                if mine_not0(ctx, i) {
                    count(ctx, "histspace", st, i);
                }
                if take_not0(ctx, "histspace", i) {
                    st.sample("histspace", || format!("#{} history {:?}", i, hist.iter().map(|&c| CALL_NAMES[c]).collect::<Vec<_>>()));
                    ctx.begin("histspace", i, 120_000);
                    // a fresh OS thread per history, so that thread-local state starts empty and the
                    // case does not depend on what this worker executed before
                    let bad = std::thread::scope(|sc| {
                        sc.spawn(|| {
                            for (k, &c) in hist.iter().enumerate() {
                                let d = call(s, c, inp);
                                if d != fresh[c] {
                                    return Some((k, c));
                                }
                            }
                            None
                        })
                        .join()
                        .unwrap_or(Some((0, hist[0])))
                    });
                    ctx.end();
                    match bad {
                        Some((k, c)) => st.violation(ctx.viol("histspace", i, "history-dependent-result", None,
                            format!("call #{} ({}) of history {:?} differs from the same call in a fresh process", k, CALL_NAMES[c], hist), &[])),
                        None => st.outcome("histspace", "history-independent"),
                    }
                }
            }
            if hist.len() < maxlen {
                for c in 0..NCALLS {
                    // the 20 MiB call only as the first element of two-call histories (cost)
                    if c == BIG_CALL && !hist.is_empty() {
                        continue;
                    }
                    if !hist.is_empty() && hist[0] == BIG_CALL && hist.len() >= 2 {
                        continue;
                    }
                    hist.push(c);
                    rec(ctx, st, s, inp, fresh, hist, maxlen, idx);
                    hist.pop();
                }
            }
        }
        rec(ctx, st, s, &inp, &fresh, &mut hist, maxlen, &mut idx);
        let _ = std::fs::remove_file(&path);
        let e = st.eng(name);
        e.bound = "24 (function, input) calls incl. the C wrappers, the corrections of one stream coded under each hash algorithm, a zstd frame without content size, two low-entropy streams of > 64 KiB of plaintext and a 20 MiB file; each as the first call of a fresh process; all call sequences of length <= 3 in one process, every result compared with the fresh-process result".into();
        e.exhaustive = true;
    }

    // (2) cross-process environments
    if timing { eprintln!("T{} {:.1}s before procspace", ctx.thread, t_start.elapsed().as_secs_f64()); }
    let name = "procspace";
    if ctx.engine_on(name) {
        let path = format!("/verif/target/run/c14_inputs_p{}_{}.bin", std::process::id(), ctx.thread);
        inp.save(&path);
        let have_setarch = std::process::Command::new("setarch").arg("--version").output().is_ok();
        let mut idx = 0u64;
        for perturb in ["0", "85", "170"] {
            for mmap in ["", "1073741824"] {
                for (no_aslr, one_cpu) in [(false, false), (true, false), (false, true)] {
                    let i = idx;
                    idx += 1;
                    if ctx.sel.mine(i) {
                        count(ctx, name, st, i);
                    }
                    if !ctx.take(name, i) {
                        continue;
                    }
                    if no_aslr && !have_setarch {
                        st.outcome(name, "setarch-unavailable-skipped");
                        continue;
                    }
                    let mut envs: Vec<(&str, &str)> = vec![("MALLOC_PERTURB_", perturb)];
                    if one_cpu {
                        envs.push(("__one_cpu", "1"));
                    }
                    if !mmap.is_empty() {
                        envs.push(("MALLOC_MMAP_THRESHOLD_", mmap));
                        envs.push(("MALLOC_TRIM_THRESHOLD_", mmap));
                    }
                    st.sample(name, || format!("#{} env {:?} aslr_off={}", i, envs, no_aslr));
                    ctx.begin(name, i, 120_000);
                    let r = child_digests(&path, "all", &envs, no_aslr);
                    ctx.end();
                    match r {
                        Err(e) => {
                            if no_aslr {
                                // personality(2) may be forbidden in the sandbox
                                st.outcome(name, "aslr-off-not-permitted-skipped");
                                let _ = e;
                            } else {
                                crate::streams::harness_bug(&format!("digest child failed: {}", e));
                            }
                        }
                        Ok(v) => {
                            let bad: Vec<&str> = v.iter().filter(|(id, d)| *d != seq[*id]).map(|(id, _)| CALL_NAMES[*id]).collect();
                            if bad.is_empty() {
                                st.outcome(name, "identical-digests");
                            } else {
                                st.violation(ctx.viol(name, i, "process-environment-dependent-result", None,
                                    format!("under env {:?} aslr_off={} these calls give different results: {:?}", envs, no_aslr, bad), &[]));
                            }
                        }
                    }
                }
            }
        }
        let _ = std::fs::remove_file(&path);
        let e = st.eng(name);
        e.bound = "all 23 calls (every call but the 20 MiB one) in fresh processes under MALLOC_PERTURB_ {0,0x55,0xAA} x mmap/trim threshold {default, 1 GiB} x {default, ASLR off, pinned to one CPU}".into();
        e.exhaustive = true;
    }

    // (2b) first use under contention (sampled): in fresh processes, many threads start the same call
    // at the same moment, so that lazily initialised state is raced on its first use
    if timing { eprintln!("T{} {:.1}s before firstuse(sampled)", ctx.thread, t_start.elapsed().as_secs_f64()); }
    let name = "firstuse(sampled)";
    if ctx.engine_on(name) {
        let path = format!("/verif/target/run/c14_inputs_f{}_{}.bin", std::process::id(), ctx.thread);
        inp.save(&path);
        let reps = if ctx.quick() { 6 } else { 40 };
        let mut idx = 0u64;
        for id in 0..NCALLS {
            if id == 8 || id == 9 || id == BIG_CALL {
                continue;
            }
            // the calls that differ only in the hash algorithm get more attempts: each of them is the
            // only user of its hash function's state
            let reps = if id >= 13 { reps * 5 } else { reps };
            for rep in 0..reps {
                let i = idx;
                idx += 1;
                if ctx.sel.mine(i) {
                    count(ctx, name, st, i);
                }
                if !ctx.take(name, i) {
                    continue;
                }
                let n = [8usize, 12, 16, 16][rep % 4];
                ctx.begin(name, i, 120_000);
                let r = child_firstuse(&path, id, n);
                ctx.end();
                match r {
                    Err(e) => crate::streams::harness_bug(&format!("firstuse child failed: {}", e)),
                    Ok(v) => {
                        let bad = v.iter().filter(|d| **d != seq[id]).count();
                        if bad > 0 {
                            st.violation(ctx.viol(name, i, "first-use-race", None,
                                format!("{} of {} threads that started {} simultaneously in a fresh process got a result different from the sequential one", bad, n, CALL_NAMES[id]), &[]));
                        } else {
                            st.outcome(name, "concurrent-first-use-equals-sequential");
                        }
                    }
                }
            }
        }
        let _ = std::fs::remove_file(&path);
        let e = st.eng(name);
        e.bound = format!("20 calls x {} fresh processes each (x5 for the six calls that differ only in the hash algorithm), 8-16 threads that warm up with sibling calls, start the call at a spinning barrier and meet again at the hook point before hashing starts (free-running: a sample of interleavings, labelled as such)", reps);
        e.exhaustive = true;
    }

    // (2c) time warp: a thread is held for seconds at a hook point in the middle of a call; the result
    // must not depend on how much wall-clock time the call took
    if timing { eprintln!("T{} {:.1}s before timewarp", ctx.thread, t_start.elapsed().as_secs_f64()); }
    let name = "timewarp";
    if ctx.engine_on(name) {
        s.set_sched_hook(Some(hook));
        let ms: u64 = if ctx.quick() { 3_000 } else { 12_000 };
        let mut idx = 0u64;
        for id in 0..NCALLS {
            if id == 8 || id == 9 || id == BIG_CALL {
                continue;
            }
            // quick tier: one of the six hash-variant calls and one of each pair of near-identical calls
            if ctx.quick() && (id == 4 || (14..=18).contains(&id) || id == 22) {
                continue;
            }
            // which hook sites does this call reach?
            TW_SEEN.with(|v| *v.borrow_mut() = Some(Vec::new()));
            let _ = call(s, id, &inp);
            let sites: Vec<u32> = TW_SEEN.with(|v| v.borrow_mut().take().unwrap_or_default());
            for site in sites {
                if site >= 100 {
                    continue;
                }
                let i = idx;
                idx += 1;
                if mine_not0(ctx, i) {
                    count(ctx, name, st, i);
                }
                if !take_not0(ctx, name, i) {
                    continue;
                }
                st.sample(name, || format!("#{} {} held for {} ms at hook site {}", i, CALL_NAMES[id], ms, site));
                ctx.begin(name, i, 120_000 + ms);
                TW.with(|t| t.set(Some((site, ms))));
                let d = call(s, id, &inp);
                TW.with(|t| t.set(None));
                ctx.end();
                if d != seq[id] {
                    st.violation(ctx.viol(name, i, "wall-clock-dependent-result", None,
                        format!("{} returns a different result when the calling thread is held for {} ms at hook site {}", CALL_NAMES[id], ms, site), &[]));
                } else {
                    st.outcome(name, "independent-of-elapsed-time");
                }
            }
        }
        let e = st.eng(name);
        e.bound = format!("{} calls x every hook site the call reaches: the calling thread sleeps {} ms at the first visit of the site", if ctx.quick() { 13 } else { 20 }, ms);
        e.exhaustive = true;
    }

    // (3) schedspace: only one explorer can own the global scheduler; thread 0 runs it
    if timing { eprintln!("T{} {:.1}s before schedspace", ctx.thread, t_start.elapsed().as_secs_f64()); }
    let name = "schedspace";
    if ctx.engine_on(name) && (ctx.thread == 0) {
        let bound = if ctx.quick() { 2 } else { 3 };
        let configs: Vec<(Vec<Vec<usize>>, bool)> = vec![
            (vec![vec![0, 2], vec![3, 5]], false),
            (vec![vec![2, 0], vec![2, 4]], false),
            (vec![vec![0], vec![2], vec![3]], false),
            (vec![vec![2, 10], vec![10, 2]], true),
            (vec![vec![1], vec![10], vec![5]], false),
            (vec![vec![6, 7], vec![7, 0]], false),
            (vec![vec![11, 12], vec![12, 11]], false),
            (vec![vec![19, 7], vec![7, 19]], false),
        ];
        let mut idx = 0u64;
        for (bodies, private) in configs {
            let i = idx;
            idx += 1;
            if ctx.sel.only_engine.is_some() && !ctx.sel.mine(i) {
                continue;
            }
            if ctx.sel.skip.iter().any(|(e, k)| e == name && *k == i) {
                continue;
            }
            let expected: Vec<Vec<u64>> = bodies.iter().map(|b| b.iter().map(|&c| seq[c]).collect()).collect();
            // determinism of the controlled execution itself: the same schedule twice
            ctx.begin(name, i, 60_000);
            let a = run_schedule(s, &inp, &bodies, &[], private);
            ctx.begin(name, i, 60_000);
            let b = run_schedule(s, &inp, &bodies, &[], private);
            let ca: Vec<(usize, u32)> = a.points.iter().map(|p| (p.enabled.len(), p.site)).collect();
            let cb: Vec<(usize, u32)> = b.points.iter().map(|p| (p.enabled.len(), p.site)).collect();
            if ca != cb {
                st.violation(ctx.viol(name, i, "schedule-not-reproducible", None,
                    format!("two runs of the default schedule of {:?} hit different scheduling points ({} vs {})", bodies, ca.len(), cb.len()), &[]));
                continue;
            }
            let tick = || ctx.begin(name, i, 60_000);
            let mut ex = Explorer { s, inp: &inp, bodies: bodies.clone(), expected, bound, private_copies: private, executions: 0, points_total: 0, failures: Vec::new(), max_exec: if ctx.quick() { 8_000 } else { 80_000 }, capped: false, tick: &tick };
            ex.explore(vec![]);
            ctx.end();
            let e = st.eng(name);
            e.states += ex.points_total;
            e.transitions += ex.points_total;
            e.traces += ex.executions;
            e.nontrivial += ex.executions;
            e.notes.push(format!("threads {:?} private_inputs={}: {} schedules with <= {} preemptions, {} scheduling points on the default schedule{}",
                bodies, private, ex.executions, bound, a.points.len(), if ex.capped { " (CAP on executions hit: not exhaustive for this bound)" } else { "" }));
            if ex.capped {
                e.exhaustive = false;
                e.notes.push("cap hit".into());
            }
            st.sample(name, || format!("threads {:?}: default schedule has {} points, e.g. sites {:?}", bodies, a.points.len(), a.points.iter().take(12).map(|p| p.site).collect::<Vec<_>>()));
            if ex.failures.is_empty() {
                *st.eng(name).outcomes.entry("all-schedules-equal-sequential".into()).or_insert(0) += ex.executions;
            } else {
                let (sch, why) = &ex.failures[0];
                st.violation(ctx.viol(name, i, "schedule-dependent-result", None,
                    format!("threads {:?} (private inputs: {}), schedule {:?}: {}", bodies, private, sch, why), &[]));
            }
        }
        let e = st.eng(name);
        let capped = e.notes.iter().any(|n| n == "cap hit");
        e.bound = format!("8 thread configurations (2 threads x 2 calls, 3 threads x 1 call; shared and private input buffers) x every schedule with at most {} preemptions at the library's hook points and at every call into the harness Read/Write objects", bound);
        e.exhaustive = !capped;
    }

    // (3a') smallstack: the calls on a thread with a 128 KiB stack (the library keeps its large tables on the heap; a worker
    // pool with small stacks is an ordinary way to call it)
    if timing { eprintln!("T{} {:.1}s before smallstack", ctx.thread, t_start.elapsed().as_secs_f64()); }
    let name = "smallstack";
    if ctx.engine_on(name) {
        let mut idx = 0u64;
        for id in 0..NCALLS {
            if id == BIG_CALL {
                continue;
            }
            let i = idx;
            idx += 1;
            if ctx.sel.mine(i) {
                count(ctx, name, st, i);
            }
            if !ctx.take(name, i) {
                continue;
            }
            st.sample(name, || format!("#{} {} on a thread with a 128 KiB stack", i, CALL_NAMES[id]));
            ctx.begin(name, i, 120_000);
            let inp_ref = &inp;
            let d = std::thread::scope(|sc| {
                std::thread::Builder::new().stack_size(std::env::var("PFV_STACK_KIB").ok().and_then(|v| v.parse::<usize>().ok()).unwrap_or(128) << 10).spawn_scoped(sc, move || call(s, id, inp_ref)).map(|h| h.join().unwrap_or(0)).unwrap_or(0)
            });
            ctx.end();
            if d != seq[id] {
                st.violation(ctx.viol(name, i, "stack-size-dependent-result", None, format!("{} on a 128 KiB stack returns a result different from the sequential one", CALL_NAMES[id]), &[]));
            } else {
                st.outcome(name, "same-on-small-stack");
            }
        }
        let e = st.eng(name);
        e.bound = "23 calls, each on a fresh thread with a 128 KiB stack (the unchanged release build needs less than 96 KiB; a stack overflow aborts the process and is reported as such)".into();
        e.exhaustive = true;
    }

    // (3b) argspace: the same argument bytes at every address alignment (a result may depend on the bytes of an
    // argument, not on where the caller keeps them)
    if timing { eprintln!("T{} {:.1}s before argspace", ctx.thread, t_start.elapsed().as_secs_f64()); }
    let name = "argspace";
    if ctx.engine_on(name) {
        let shifts: usize = if ctx.quick() { 16 } else { 64 };
        // (call id, blob index); the digests are those of `call`
        let targets: [(usize, usize); 8] = [(0, B_FSMALL), (1, B_FPNG), (3, B_S1), (4, B_S1), (6, B_FSMALL), (7, B_Z), (8, B_FBIG), (9, B_SBIG)];
        let mut idx = 0u64;
        for &(id, bi) in &targets {
            for shift in 0..shifts {
                let i = idx;
                idx += 1;
                if ctx.sel.mine(i) {
                    count(ctx, name, st, i);
                }
                if !ctx.take(name, i) {
                    continue;
                }
                let src = &inp.blobs[bi];
                let mut buf = vec![0xa5u8; src.len() + 192];
                let base = buf.as_ptr() as usize;
                let off = (64 - base % 64) % 64 + shift;
                buf[off..off + src.len()].copy_from_slice(src);
                let arg = &buf[off..off + src.len()];
                st.sample(name, || format!("#{} {} with the argument at address = {} mod 64", i, CALL_NAMES[id], shift));
                ctx.begin(name, i, 120_000);
                let d = match id {
                    0 | 1 | 8 => dres(caught(|| s.expand(arg))),
                    3 | 9 => dsplit(caught(|| s.decompress(arg, true))),
                    4 => dsplit(caught(|| s.decompress(arg, false))),
                    6 => dres(caught(|| s.compress_zstd(arg))),
                    7 => dres(caught(|| s.decompress_zstd(arg, 1 << 20))),
                    _ => unreachable!(),
                };
                ctx.end();
                if d != seq[id] {
                    st.violation(ctx.viol(name, i, "argument-address-dependent-result", None,
                        format!("{} gives a different result when its argument lies at an address = {} mod 64 than for the same bytes in a fresh Vec", CALL_NAMES[id], shift), &[]));
                } else {
                    st.outcome(name, "same-for-every-alignment");
                }
            }
        }
        let e = st.eng(name);
        e.bound = format!("8 calls x the argument placed at each of {} consecutive addresses (all residues mod {}), compared with the sequential digest", shifts, shifts);
        e.exhaustive = true;
    }

    // (4) free-running stress (sampling; supplementary): all workers start the same call at the
    // same moment (barrier) so that executions of the same code overlap as much as possible
    if timing { eprintln!("T{} {:.1}s before stress(sampled)", ctx.thread, t_start.elapsed().as_secs_f64()); }
    let name = "stress(sampled)";
    if ctx.engine_on(name) && ctx.sel.only_engine.is_none() && ctx.sel.nshards == ctx.nthreads as u64 {
        static BARRIER: std::sync::OnceLock<std::sync::Barrier> = std::sync::OnceLock::new();
        let barrier = BARRIER.get_or_init(|| std::sync::Barrier::new(ctx.nthreads));
        let rounds = if ctx.quick() { 8 } else { 60 };
        let mut bad = 0;
        let own = Inputs { blobs: inp.blobs.clone() };
        for r in 0..rounds {
            for id in 0..NCALLS {
                if id == BIG_CALL || ((id == 8 || id == 9) && r % 4 != 0) {
                    continue;
                }
                barrier.wait();
                // odd rounds: every thread uses its private copy of the inputs
                let d = call(s, id, if r % 2 == 0 { &inp } else { &own });
                if d != seq[id] {
                    bad += 1;
                }
                st.eng(name).traces += 1;
            }
        }
        let e = st.eng(name);
        e.states += 1;
        e.transitions += 1;
        e.nontrivial += 1;
        e.bound = format!("all {} worker threads start each of the 23 calls simultaneously (barrier), {} rounds, alternating private and identical inputs, compared with the sequential digests (free-running: a sample of interleavings, labelled as such)", ctx.nthreads, rounds);
        e.exhaustive = true;
        if bad > 0 {
            st.violation(ctx.viol(name, ctx.thread as u64, "concurrent-result-differs", None, format!("{} concurrent calls returned a result different from the sequential one", bad), &[]));
        } else {
            *st.eng(name).outcomes.entry("concurrent-equals-sequential".into()).or_insert(0) += 1;
        }
    }

    // (5) gianthist (last: the 1 GiB allocation changes the allocator's thresholds for whatever follows): one call on a stream with more than 1 GiB of plaintext that the analysis gives up on, then
    // ordinary calls on the same thread and on a new thread (byte-counted global state, error paths)
    if timing { eprintln!("T{} {:.1}s before gianthist", ctx.thread, t_start.elapsed().as_secs_f64()); }
    let name = "gianthist";
    if ctx.engine_on(name) {
        let i = 0u64;
        if ctx.sel.mine(i) {
            count(ctx, name, st, i);
        }
        if ctx.take(name, i) {
            use crate::model::*;
            let mut toks: Vec<Tok> = std::iter::repeat(Tok::Lit(0)).take(9000).collect();
            toks.push(Tok::Ref { len: 258, dist: 9000, irr: false });
            let n = (1100usize << 20) / 258;
            toks.extend(std::iter::repeat(Tok::Ref { len: 258, dist: 1, irr: false }).take(n));
            let giant = serialise(&Stream { blocks: vec![Block::Fixed { toks }], final_pad: 0 });
            st.sample(name, || format!("#0 decompress({} byte stream, {} MiB of plaintext), then 8 ordinary calls", giant.len(), (9000 + 258 * (n + 1)) >> 20));
            ctx.begin(name, i, 900_000);
            let after = [0usize, 3, 6, 8, 1, 9, 7, 12];
            let (outcome, bad) = std::thread::scope(|sc| {
                sc.spawn(|| {
                    let outcome = match caught(|| s.decompress(&giant, false)) {
                        Ok(Ok(r)) => format!("accepted ({} plaintext bytes)", r.plain.len()),
                        Ok(Err(e)) => format!("Err: {}", crate::props_stream::first_line(&e.msg)),
                        Err(p) => format!("panic at {}", p.loc),
                    };
                    let mut bad = Vec::new();
                    for &c in &after {
                        if call(s, c, &inp) != seq[c] {
                            bad.push(c);
                        }
                    }
                    (outcome, bad)
                })
                .join()
                .unwrap_or(("thread died".into(), vec![0]))
            });
            // and once more from a new thread (process-wide state)
            let bad2: Vec<usize> = std::thread::scope(|sc| sc.spawn(|| after.iter().cloned().filter(|&c| call(s, c, &inp) != seq[c]).collect()).join().unwrap_or(vec![0]));
            ctx.end();
            st.eng(name).notes.push(format!("the giant call ends with: {}", outcome));
            if !bad.is_empty() || !bad2.is_empty() {
                st.violation(ctx.viol(name, i, "history-dependent-result", None,
                    format!("after one decompress_deflate_stream call on a stream with 1.1 GiB of plaintext ({}), these calls differ from their fresh results: same thread {:?}, new thread {:?}", outcome,
                        bad.iter().map(|&c| CALL_NAMES[c]).collect::<Vec<_>>(), bad2.iter().map(|&c| CALL_NAMES[c]).collect::<Vec<_>>()), &[]));
            } else {
                st.outcome(name, "history-independent");
            }
        }
        let e = st.eng(name);
        e.bound = "one history: a call on a 7 MB stream with 1.1 GiB of plaintext, then 8 ordinary calls on the same thread and the same 8 on a new thread".into();
        e.exhaustive = true;
    }
}

/// ownership rule for the sleep- and child-process-bound engines: worker 0 also runs the whole schedule exploration, so
/// in a full run the cases of these engines are dealt to workers 1.. only (single-case replay is unaffected)
fn mine_not0(ctx: &Ctx, i: u64) -> bool {
    if ctx.sel.nshards == ctx.nthreads as u64 && ctx.nthreads > 1 && ctx.sel.only_engine.is_none() {
        (i % (ctx.nthreads as u64 - 1)) + 1 == ctx.thread as u64
    } else {
        ctx.sel.mine(i)
    }
}

fn take_not0(ctx: &Ctx, engine: &str, i: u64) -> bool {
    mine_not0(ctx, i) && !ctx.sel.skip.iter().any(|(e, k)| *k == i && e == engine)
}

fn count(ctx: &Ctx, name: &str, st: &mut Local, _i: u64) {
    let _ = ctx;
    let e = st.eng(name);
    e.states += 1;
    e.transitions += 1;
    e.nontrivial += 1;
}
