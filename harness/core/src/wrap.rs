//! Container writers (zlib, gzip, zip local header, PNG IDAT) with their own checksums.

pub fn adler32(data: &[u8]) -> u32 {
    let (mut a, mut b) = (1u32, 0u32);
    for &x in data {
        a = (a + x as u32) % 65521;
        b = (b + a) % 65521;
    }
    (b << 16) | a
}

pub fn crc32(data: &[u8]) -> u32 {
    let mut table = [0u32; 256];
    for i in 0..256u32 {
        let mut c = i;
        for _ in 0..8 {
            c = if c & 1 != 0 { 0xEDB88320 ^ (c >> 1) } else { c >> 1 };
        }
        table[i as usize] = c;
    }
    let mut c = 0xFFFF_FFFFu32;
    for &b in data {
        c = table[((c ^ b as u32) & 0xFF) as usize] ^ (c >> 8);
    }
    c ^ 0xFFFF_FFFF
}

pub fn zlib_wrap(hdr: [u8; 2], stream: &[u8], plain: &[u8]) -> Vec<u8> {
    let mut v = hdr.to_vec();
    v.extend_from_slice(stream);
    v.extend_from_slice(&adler32(plain).to_be_bytes());
    v
}

#[derive(Clone, Debug, Default)]
pub struct GzOpts {
    pub ftext: bool,
    pub fhcrc: bool,
    /// FEXTRA field content (without the 2-byte length), None = flag clear
    pub extra: Option<Vec<u8>>,
    /// FNAME content without terminator
    pub name: Option<Vec<u8>>,
    pub comment: Option<Vec<u8>>,
    pub method: u8,
}

pub fn gzip_wrap(o: &GzOpts, stream: &[u8], plain: &[u8]) -> Vec<u8> {
    let mut flg = 0u8;
    if o.ftext {
        flg |= 1;
    }
    if o.fhcrc {
        flg |= 2;
    }
    if o.extra.is_some() {
        flg |= 4;
    }
    if o.name.is_some() {
        flg |= 8;
    }
    if o.comment.is_some() {
        flg |= 16;
    }
    let mut v = vec![0x1f, 0x8b, o.method, flg, 0, 0, 0, 0, 0, 3];
    if let Some(e) = &o.extra {
        v.extend_from_slice(&(e.len() as u16).to_le_bytes());
        v.extend_from_slice(e);
    }
    if let Some(n) = &o.name {
        v.extend_from_slice(n);
        v.push(0);
    }
    if let Some(c) = &o.comment {
        v.extend_from_slice(c);
        v.push(0);
    }
    if o.fhcrc {
        let c = crc32(&v) as u16;
        v.extend_from_slice(&c.to_le_bytes());
    }
    v.extend_from_slice(stream);
    v.extend_from_slice(&crc32(plain).to_le_bytes());
    v.extend_from_slice(&(plain.len() as u32).to_le_bytes());
    v
}

pub fn zip_wrap(method: u16, name: &[u8], extra: &[u8], stream: &[u8], plain: &[u8]) -> Vec<u8> {
    let mut v = vec![0x50, 0x4b, 0x03, 0x04];
    v.extend_from_slice(&20u16.to_le_bytes()); // version
    v.extend_from_slice(&0u16.to_le_bytes()); // flags
    v.extend_from_slice(&method.to_le_bytes());
    v.extend_from_slice(&0u16.to_le_bytes()); // time
    v.extend_from_slice(&0u16.to_le_bytes()); // date
    v.extend_from_slice(&crc32(plain).to_le_bytes());
    v.extend_from_slice(&(stream.len() as u32).to_le_bytes());
    v.extend_from_slice(&(plain.len() as u32).to_le_bytes());
    v.extend_from_slice(&(name.len() as u16).to_le_bytes());
    v.extend_from_slice(&(extra.len() as u16).to_le_bytes());
    v.extend_from_slice(name);
    v.extend_from_slice(extra);
    v.extend_from_slice(stream);
    v
}

/// zip local header with explicit flag and size fields (streamed entries, zip64 placeholders, wrong sizes)
#[allow(clippy::too_many_arguments)]
pub fn zip_wrap_ex(flags: u16, csize: u32, usize_: u32, crc: u32, name: &[u8], extra: &[u8], stream: &[u8], descriptor: bool, plain: &[u8]) -> Vec<u8> {
    let mut v = vec![0x50, 0x4b, 0x03, 0x04];
    v.extend_from_slice(&20u16.to_le_bytes());
    v.extend_from_slice(&flags.to_le_bytes());
    v.extend_from_slice(&8u16.to_le_bytes());
    v.extend_from_slice(&0u16.to_le_bytes());
    v.extend_from_slice(&0u16.to_le_bytes());
    v.extend_from_slice(&crc.to_le_bytes());
    v.extend_from_slice(&csize.to_le_bytes());
    v.extend_from_slice(&usize_.to_le_bytes());
    v.extend_from_slice(&(name.len() as u16).to_le_bytes());
    v.extend_from_slice(&(extra.len() as u16).to_le_bytes());
    v.extend_from_slice(name);
    v.extend_from_slice(extra);
    v.extend_from_slice(stream);
    if descriptor {
        v.extend_from_slice(&[0x50, 0x4b, 0x07, 0x08]);
        v.extend_from_slice(&crc32(plain).to_le_bytes());
        v.extend_from_slice(&(stream.len() as u32).to_le_bytes());
        v.extend_from_slice(&(plain.len() as u32).to_le_bytes());
    }
    v
}

pub fn png_chunk(kind: &[u8; 4], payload: &[u8]) -> Vec<u8> {
    let mut v = (payload.len() as u32).to_be_bytes().to_vec();
    let mut body = kind.to_vec();
    body.extend_from_slice(payload);
    v.extend_from_slice(&body);
    v.extend_from_slice(&crc32(&body).to_be_bytes());
    v
}

pub const PNG_SIG: [u8; 8] = [0x89, b'P', b'N', b'G', 0x0d, 0x0a, 0x1a, 0x0a];

pub fn png_ihdr() -> Vec<u8> {
    png_chunk(b"IHDR", &[0, 0, 0, 1, 0, 0, 0, 1, 8, 0, 0, 0, 0])
}

/// PNG file whose IDAT payload (a zlib stream) is split at the given offsets
pub fn png_wrap(zlib_stream: &[u8], splits: &[usize], with_iend: bool) -> Vec<u8> {
    let mut v = PNG_SIG.to_vec();
    v.extend_from_slice(&png_ihdr());
    v.extend_from_slice(&idat_chunks(zlib_stream, splits));
    if with_iend {
        v.extend_from_slice(&png_chunk(b"IEND", &[]));
    }
    v
}

/// consecutive IDAT chunks; `splits` are cut points into the payload (may repeat => empty chunk)
pub fn idat_chunks(payload: &[u8], splits: &[usize]) -> Vec<u8> {
    let mut v = Vec::new();
    let mut prev = 0;
    for &s in splits.iter().chain(std::iter::once(&payload.len())) {
        let s = s.min(payload.len()).max(prev);
        v.extend_from_slice(&png_chunk(b"IDAT", &payload[prev..s]));
        prev = s;
    }
    v
}
