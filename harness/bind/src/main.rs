//! `pfv`: binds the property checks of pfvcore to the current build of /repo (feature
//! `verif`) and to the frozen reference build, and runs them on worker threads.

use pfvcore::rt::*;
use std::io::{Read, Write};
use std::sync::Arc;
use std::time::Instant;

macro_rules! subject_impl {
    ($name:ident, $krate:ident, $label:expr) => {
        struct $name;
        impl $name {
            fn e(e: $krate::PreflateError) -> SErr {
                SErr { code: e.exit_code().as_integer_error_code(), msg: e.message().to_string() }
            }
        }
        impl Subject for $name {
            fn name(&self) -> &'static str {
                $label
            }
            fn decompress(&self, d: &[u8], verify: bool) -> R<Split> {
                $krate::decompress_deflate_stream(d, verify, 0)
                    .map(|r| Split { plain: r.plain_text, corr: r.prediction_corrections, size: r.compressed_size })
                    .map_err(Self::e)
            }
            fn recompress(&self, plain: &[u8], corr: &[u8]) -> R<Vec<u8>> {
                $krate::recompress_deflate_stream(plain, corr).map_err(Self::e)
            }
            fn expand(&self, f: &[u8]) -> R<Vec<u8>> {
                $krate::expand_zlib_chunks(f, 0).map_err(Self::e)
            }
            fn expand_log(&self, f: &[u8], level: u32) -> R<Vec<u8>> {
                $krate::expand_zlib_chunks(f, level).map_err(Self::e)
            }
            fn recreate(&self, src: &mut dyn Read, dst: &mut dyn Write) -> R<()> {
                let mut s = src;
                let mut d = dst;
                $krate::recreated_zlib_chunks(&mut s, &mut d).map_err(Self::e)
            }
            fn compress_zstd(&self, f: &[u8]) -> R<Vec<u8>> {
                $krate::compress_zstd(f, 0).map_err(Self::e)
            }
            fn decompress_zstd(&self, f: &[u8], cap: usize) -> R<Vec<u8>> {
                $krate::decompress_zstd(f, cap).map_err(Self::e)
            }
            fn parse_and_rewrite(&self, d: &[u8]) -> R<(Vec<u8>, usize, Vec<u8>)> {
                $krate::verif_hooks::parse_and_rewrite(d).map_err(Self::e)
            }
            fn estimate(&self, d: &[u8]) -> R<Vec<u32>> {
                $krate::verif_hooks::estimate(d).map_err(Self::e)
            }
            fn roundtrip_with_params(&self, d: &[u8], v: &[u32]) -> R<(Vec<u8>, usize, usize, Vec<u32>)> {
                $krate::verif_hooks::roundtrip_with_params(d, v).map_err(Self::e)
            }
            fn corrections_with_params(&self, d: &[u8], v: &[u32]) -> R<(Vec<u8>, Vec<u8>, usize)> {
                $krate::verif_hooks::corrections_with_params(d, v).map_err(Self::e)
            }
            fn cabac_roundtrip(&self, ops: &[Op]) -> (usize, Vec<Op>) {
                use $krate::verif_hooks::CabacOp;
                let o: Vec<CabacOp> = ops
                    .iter()
                    .map(|o| match *o {
                        Op::Value(b, v) => CabacOp::Value(b, v),
                        Op::Mis(c, b) => CabacOp::Mis(c, b),
                        Op::Corr(c, v) => CabacOp::Corr(c, v),
                    })
                    .collect();
                let (n, d) = $krate::verif_hooks::cabac_roundtrip(&o);
                (
                    n,
                    d.iter()
                        .map(|o| match *o {
                            CabacOp::Value(b, v) => Op::Value(b, v),
                            CabacOp::Mis(c, b) => Op::Mis(c, b),
                            CabacOp::Corr(c, v) => Op::Corr(c, v),
                        })
                        .collect(),
                )
            }
            fn format_versions(&self) -> (u8, u16) {
                $krate::verif_hooks::format_versions()
            }
            unsafe fn c_compress(&self, i: *const u8, il: u64, o: *mut u8, ol: u64, r: *mut u64) -> i32 {
                $krate::WrapperCompressZip(i, il, o, ol, r)
            }
            unsafe fn c_decompress(&self, i: *const u8, il: u64, o: *mut u8, ol: u64, r: *mut u64) -> i32 {
                $krate::WrapperDecompressZip(i, il, o, ol, r)
            }
            fn set_sched_hook(&self, f: Option<fn(u32)>) {
                $krate::verif_hooks::set_sched_hook(f)
            }
        }
    };
}

subject_impl!(Cur, preflate_rs, "current");
subject_impl!(Refb, preflate_rs_ref, "reference");

fn usage() -> ! {
    eprintln!("usage: pfv run <property> <quick|thorough> --out FILE [--progress FILE] [--threads N] [--skip ENGINE@INDEX]... [--engine NAME --index I]");
    std::process::exit(2);
}

fn main() {
    let args: Vec<String> = std::env::args().collect();
    if args.len() == 4 && args[1] == "digest" {
        install_panic_hook();
        let cur: Box<dyn Subject> = if std::env::var("PFV_SUBJECT").as_deref() == Ok("reference") { Box::new(Refb) } else { Box::new(Cur) };
        pfvcore::props_c14::digest_main(&*cur, &args[2], &args[3]);
        return;
    }
    if args.len() == 3 && args[1] == "cabienv" {
        // no panic hook, no output: stdout / stderr are deliberately unusable in this child
        pfvcore::props_file::cabienv_main(&Cur, &args[2]);
        return;
    }
    if args.len() == 3 && args[1] == "mkinputs" {
        install_panic_hook();
        pfvcore::props_c14::Inputs::build(&Cur).save(&args[2]);
        return;
    }
    if args.len() == 5 && args[1] == "firstuse" {
        install_panic_hook();
        let cur: Box<dyn Subject> = if std::env::var("PFV_SUBJECT").as_deref() == Ok("reference") { Box::new(Refb) } else { Box::new(Cur) };
        pfvcore::props_c14::firstuse_main(&*cur, &args[2], args[3].parse().unwrap(), args[4].parse().unwrap());
        return;
    }
    if args.len() < 4 || args[1] != "run" {
        usage();
    }
    let property = args[2].clone();
    let tier = match args[3].as_str() {
        "quick" => Tier::Quick,
        "thorough" => Tier::Thorough,
        _ => usage(),
    };
    let mut out = None;
    let mut progress_path = None;
    let mut threads = std::thread::available_parallelism().map(|n| n.get()).unwrap_or(4).min(MAX_THREADS);
    let mut skip: Vec<(String, u64)> = Vec::new();
    let mut engine = None;
    let mut index: Option<u64> = None;
    let mut i = 4;
    while i < args.len() {
        let v = args.get(i + 1).cloned();
        match args[i].as_str() {
            "--out" => out = v,
            "--progress" => progress_path = v,
            "--threads" => threads = v.unwrap().parse().unwrap(),
            "--skip" => {
                let v = v.unwrap();
                let (e, n) = v.rsplit_once('@').unwrap();
                skip.push((e.to_string(), n.parse().unwrap()));
            }
            "--engine" => engine = v,
            "--index" => index = Some(v.unwrap().parse().unwrap()),
            _ => usage(),
        }
        i += 2;
    }
    let out = out.unwrap_or_else(|| usage());
    if engine.as_deref() == Some("aggregate") {
        // an aggregate judgement is replayed by running the whole check again
        engine = None;
        index = None;
    }
    let threads = threads.clamp(1, MAX_THREADS);

    // the library prints to stdout for loglevel > 0 (parse_zip_stream always passes 1)
    unsafe {
        let devnull = std::ffi::CString::new("/dev/null").unwrap();
        let fd = libc::open(devnull.as_ptr(), libc::O_WRONLY);
        if fd >= 0 {
            libc::dup2(fd, 1);
            libc::close(fd);
        }
    }
    install_panic_hook();

    let progress = Arc::new(Progress::new(progress_path.as_deref()));
    let t0 = Instant::now();
    let single = index.is_some();
    let nthreads = if single { 1 } else { threads };
    let samples_dir = "/repo/samples".to_string();

    // watchdog
    {
        let pg = progress.clone();
        let out = out.clone();
        let property = property.clone();
        std::thread::spawn(move || loop {
            std::thread::sleep(std::time::Duration::from_millis(100));
            if pg.stop.load(std::sync::atomic::Ordering::Relaxed) {
                return;
            }
            if let Some((_t, e, i)) = pg.overdue() {
                let j = serde_json::json!({"property": property, "hang": {"engine": e, "index": i}, "complete": false});
                let _ = std::fs::write(&out, serde_json::to_string_pretty(&j).unwrap());
                eprintln!("HANG engine={} index={}", e, i);
                std::process::exit(3);
            }
        });
    }

    let mut handles = Vec::new();
    for t in 0..nthreads {
        let pg = progress.clone();
        let property = property.clone();
        let skip = skip.clone();
        let engine = engine.clone();
        let samples_dir = samples_dir.clone();
        let h = std::thread::Builder::new()
            .stack_size(64 << 20)
            .spawn(move || {
                let cur: Box<dyn Subject> = if std::env::var("PFV_SUBJECT").as_deref() == Ok("reference") { Box::new(Refb) } else { Box::new(Cur) };
                let cur = &*cur;
                let refb = Refb;
                let sel = match index {
                    Some(ix) => Sel { shard: ix, nshards: u64::MAX, only_engine: engine, skip },
                    None => Sel { shard: t as u64, nshards: nthreads as u64, only_engine: engine, skip },
                };
                let ctx = Ctx {
                    cur,
                    refb: &refb,
                    tier,
                    sel,
                    thread: t,
                    nthreads,
                    progress: &pg,
                    property: &property,
                    repo_samples: &samples_dir,
                };
                let mut st = Local::default();
                pfvcore::props::run(&ctx, &mut st);
                st
            })
            .unwrap();
        handles.push(h);
    }
    let mut total = Local::default();
    for h in handles {
        match h.join() {
            Ok(l) => total.merge(l),
            Err(_) => {
                eprintln!("HARNESS-BUG: worker thread panicked outside a guarded call");
                std::process::exit(2);
            }
        }
    }
    progress.stop.store(true, std::sync::atomic::Ordering::Relaxed);
    pfvcore::props::finalize(&property, &mut total);

    let mut engines = serde_json::Map::new();
    for (k, e) in &total.engines {
        engines.insert(
            k.clone(),
            serde_json::json!({
                "states": e.states, "transitions": e.transitions, "traces": e.traces, "nontrivial": e.nontrivial,
                "outcomes": e.outcomes, "samples": e.samples, "notes": e.notes, "bound": e.bound, "exhaustive": e.exhaustive,
            }),
        );
    }
    let viols: Vec<serde_json::Value> = total
        .viols
        .iter()
        .map(|v| {
            serde_json::json!({
                "property": v.property, "engine": v.engine, "index": v.index, "class": v.class,
                "panic_site": v.panic_site, "detail": v.detail, "input_hex": v.input_hex,
            })
        })
        .collect();
    let j = serde_json::json!({
        "property": property,
        "tier": if tier == Tier::Quick { "quick" } else { "thorough" },
        "complete": true,
        "threads": nthreads,
        "engines": engines,
        "violations": viols,
        "hang": serde_json::Value::Null,
        "wall_s": t0.elapsed().as_secs_f64(),
    });
    std::fs::write(&out, serde_json::to_string_pretty(&j).unwrap()).unwrap();
    std::process::exit(if total.viols.is_empty() { 0 } else { 1 });
}
