//! Free-running race detector pass for C14 (supplementary, thorough tier): two real threads call
//! the public API on shared inputs under Miri, which reports data races and reads of
//! uninitialised memory independent of timing. Only pure-Rust paths are used (no zstd FFI).

use std::sync::Arc;

fn main() {
    // 9-byte fixed-block stream with references (hash chains, predictor, CABAC coder all run)
    let stream: Arc<Vec<u8>> = Arc::new(vec![0x4b, 0x4c, 0x4a, 0x4c, 0x4a, 0x06, 0x23, 0x00]);
    // zlib-wrapped stream of 1100 x 'a' inside literal bytes (scanner + container writer/reader)
    let mut file = b"xy".to_vec();
    file.extend_from_slice(&[0x78, 0x9c, 0x4b, 0x1c, 0x05, 0xa3, 0x60, 0x14, 0x8c, 0x02, 0x2a, 0x00, 0x00, 0x7f, 0x7a, 0xa0, 0xdc]);
    file.extend_from_slice(b"PK");
    let file = Arc::new(file);

    let seq_a = preflate_rs::decompress_deflate_stream(&stream, true, 0).map(|r| (r.plain_text, r.prediction_corrections, r.compressed_size)).ok();
    let seq_b = preflate_rs::expand_zlib_chunks(&file, 0).ok();

    let mut hs = Vec::new();
    for t in 0..2 {
        let stream = stream.clone();
        let file = file.clone();
        let (ea, eb) = (seq_a.clone(), seq_b.clone());
        hs.push(std::thread::spawn(move || {
            for round in 0..2 {
                if (t + round) % 2 == 0 {
                    let r = preflate_rs::decompress_deflate_stream(&stream, true, 0).map(|r| (r.plain_text, r.prediction_corrections, r.compressed_size)).ok();
                    assert_eq!(r, ea, "concurrent decompress differs");
                    if let Some((p, c, _)) = &r {
                        let back = preflate_rs::recompress_deflate_stream(p, c).unwrap();
                        assert_eq!(&back[..], &stream[..back.len()]);
                    }
                } else {
                    let e = preflate_rs::expand_zlib_chunks(&file, 0).ok();
                    assert_eq!(e, eb, "concurrent expand differs");
                    if let Some(e) = &e {
                        let mut out = Vec::new();
                        preflate_rs::recreated_zlib_chunks(&mut std::io::Cursor::new(&e[..]), &mut out).unwrap();
                        assert_eq!(out, *file);
                    }
                }
            }
        }));
    }
    for h in hs {
        h.join().unwrap();
    }
    println!("MIRI-PASS");
}
