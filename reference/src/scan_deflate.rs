use std::io::Cursor;

use crate::{
    idat_parse::{parse_idat, IdatContents},
    preflate_container::{decompress_deflate_stream, DecompressResult},
    preflate_error::{err_exit_code, ExitCode},
};

use byteorder::{LittleEndian, ReadBytesExt};
use std::io::{Read, Seek, SeekFrom};

use crate::preflate_error::Result;

/// The minimum size of a block that is considered for splitting into chunks
const MIN_BLOCKSIZE: usize = 1024;

#[derive(Debug)]
pub enum BlockChunk {
    /// just a bunch of normal bytes that are copied to the output
    Literal(usize),

    /// Deflate stream
    DeflateStream(DecompressResult),

    /// PNG IDAT, which is a concatenated Zlib stream of IDAT chunks. This
    /// is special since the Deflate stream is split into IDAT chunks.
    IDATDeflate(IdatContents, DecompressResult),
}

#[derive(Hash, Eq, PartialEq, Clone, Debug)]
enum Signature {
    Zlib(u8),
    ZipLocalFileHeader,
    Gzip,
    /// PNG IDAT, which is a concatenated Zlib stream of IDAT chunks, each of the size given in the Vec.
    IDAT,
}

fn next_signature(src: &[u8], index: &mut usize) -> Option<Signature> {
    if src.is_empty() {
        return None;
    }

    for i in *index..src.len() - 1 {
        let sig = u16::from_le_bytes([src[i], src[i + 1]]);

        let s = match sig {
            0x0178 => Signature::Zlib(0),
            0x5E78 => Signature::Zlib(1),
            0x9C78 => Signature::Zlib(5),
            0xDA78 => Signature::Zlib(8),
            0x4B50 => Signature::ZipLocalFileHeader,
            0x8B1F => Signature::Gzip,
            0x4449 => Signature::IDAT,
            _ => continue,
        };

        *index = i;
        return Some(s);
    }
    None
}

/// Scans for deflate streams in a zlib compressed file, decompresses the streams and
/// PNG IDAT chunks, and returns the locations of the streams.
pub fn split_into_deflate_streams(
    src: &[u8],
    locations_found: &mut Vec<BlockChunk>,
    loglevel: u32,
) {
    let mut index: usize = 0;
    let mut prev_index = 0;
    while let Some(signature) = next_signature(src, &mut index) {
        #[cfg(feature = "verif")]
        crate::verif_hooks::sched_point(20);
        match signature {
            Signature::Zlib(_) => {
                if let Ok(res) = decompress_deflate_stream(&src[index + 2..], true, loglevel) {
                    if res.plain_text.len() > MIN_BLOCKSIZE {
                        index += 2;

                        locations_found.push(BlockChunk::Literal(index - prev_index));

                        index += res.compressed_size;

                        locations_found.push(BlockChunk::DeflateStream(res));

                        prev_index = index;
                        continue;
                    }
                }
            }

            Signature::Gzip => {
                let mut cursor = Cursor::new(&src[index..]);
                if skip_gzip_header(&mut cursor).is_ok() {
                    let start = index + cursor.position() as usize;
                    if let Ok(res) = decompress_deflate_stream(&src[start..], true, loglevel) {
                        if res.plain_text.len() > MIN_BLOCKSIZE {
                            locations_found.push(BlockChunk::Literal(start - prev_index));

                            index = start + res.compressed_size;
                            prev_index = index;

                            locations_found.push(BlockChunk::DeflateStream(res));

                            continue;
                        }
                    }
                }
            }

            Signature::ZipLocalFileHeader => {
                if let Ok((header_size, res)) = parse_zip_stream(&src[index..], loglevel) {
                    if res.plain_text.len() > MIN_BLOCKSIZE {
                        locations_found.push(BlockChunk::Literal(index - prev_index + header_size));

                        index += header_size + res.compressed_size;
                        prev_index = index;

                        locations_found.push(BlockChunk::DeflateStream(res));

                        continue;
                    }
                }
            }

            Signature::IDAT => {
                // (the 4 bytes must not belong to a stream that was already emitted)
                if index >= prev_index + 4 {
                    // idat has the length first, then the "IDAT", so we need to look back 4 bytes
                    // if we find and IDAT
                    let real_start = index - 4;
                    if let Ok((r, payload)) = parse_idat(&src[real_start..], 0) {
                        if let Ok(res) = decompress_deflate_stream(&payload, true, loglevel) {
                            let length = r.total_chunk_length;
                            // the deflate stream has to end exactly where the adler32 starts,
                            // otherwise the chunks cannot be recreated from the stream
                            if length > MIN_BLOCKSIZE && res.compressed_size == payload.len() {
                                locations_found.push(BlockChunk::Literal(real_start - prev_index));

                                locations_found.push(BlockChunk::IDATDeflate(r, res));

                                index = real_start + length;
                                prev_index = index;
                                continue;
                            }
                        }
                    }
                }
            }
        }

        // wasn't able to match any of the known signatures, so skip the current byte
        index += 1;
    }

    // add the last literal block at the end
    if prev_index < src.len() {
        locations_found.push(BlockChunk::Literal(src.len() - prev_index));
    }
}

fn skip_gzip_header<R: Read>(reader: &mut R) -> Result<()> {
    let mut buffer = [0; 10];
    reader.read_exact(&mut buffer)?; // Read past the fixed 10-byte GZIP header

    if buffer[2] != 8 {
        return err_exit_code(ExitCode::InvalidDeflate, "Unsupported compression method");
    }

    if buffer[3] & 0x04 != 0 {
        // FEXTRA flag is set, read extra data
        let mut extra_len = [0; 2];
        reader.read_exact(&mut extra_len)?;
        let extra_len = u16::from_le_bytes(extra_len);
        let mut extra = vec![0; extra_len as usize];
        reader.read_exact(&mut extra)?;
    }

    if buffer[3] & 0x08 != 0 {
        // FNAME flag is set, read null-terminated file name
        while reader.read_u8()? != 0 {}
    }

    if buffer[3] & 0x10 != 0 {
        // FCOMMENT flag is set, read null-terminated comment
        while reader.read_u8()? != 0 {}
    }

    if buffer[3] & 0x02 != 0 {
        // FHCRC flag is set, read 2-byte CRC16 for header
        let mut crc16 = [0; 2];
        reader.read_exact(&mut crc16)?;
    }

    Ok(())
}

#[test]
fn parse_png() {
    let f = crate::process::read_file("treegdi.png");

    let mut locations_found = Vec::new();
    split_into_deflate_streams(&f, &mut locations_found, 1);

    println!("locations found: {:?}", locations_found);
}

#[test]
fn parse_gz() {
    let f = crate::process::read_file("sample1.bin.gz");

    let mut locations_found = Vec::new();
    split_into_deflate_streams(&f, &mut locations_found, 1);

    println!("locations found: {:?}", locations_found);

    assert_eq!(locations_found.len(), 3);

    // 10 byte header
    assert!(match locations_found[0] {
        BlockChunk::Literal(10) => true,
        _ => false,
    });

    // Deflate stream
    assert!(match locations_found[1] {
        BlockChunk::DeflateStream(_) => true,
        _ => false,
    });

    // 8 byte footer
    assert!(match locations_found[2] {
        BlockChunk::Literal(8) => true,
        _ => false,
    });
}

#[test]
fn parse_docx() {
    let f = crate::process::read_file("file-sample_1MB.docx");

    let mut locations_found = Vec::new();
    split_into_deflate_streams(&f, &mut locations_found, 1);

    for x in locations_found {
        match x {
            BlockChunk::Literal(l) => {
                println!("Literal: {}", l);
            }
            BlockChunk::DeflateStream(d) => {
                println!("Deflate: {:?}", d.compressed_size);
            }
            BlockChunk::IDATDeflate(i, d) => {
                println!("IDAT: {:?} {:?}", i, d.compressed_size);
            }
        }
    }

    //assert_eq!(locations_found.len(), 1);
}

const ZIP_LOCAL_FILE_HEADER_SIGNATURE: u32 = 0x04034b50;

#[derive(Default)]
#[allow(dead_code)]
pub struct ZipLocalFileHeader {
    pub local_file_header_signature: u32,
    pub version_needed_to_extract: u16,
    pub general_purpose_bit_flag: u16,
    pub compression_method: u16,
    pub last_mod_file_time: u16,
    pub last_mod_file_date: u16,
    pub crc32: u32,
    pub compressed_size: u64, // only 4 bytes in the regular header but can be 8 bytes if Zip64
    pub uncompressed_size: u64, // only 4 bytes in the regular header but can be 8 bytes if Zip64
    pub file_name_length: u16,
    pub extra_field_length: u16,
}

impl ZipLocalFileHeader {
    pub fn create_and_load<R: Read>(binary_reader: &mut R) -> Result<Self> {
        let zip_local_file_header = Self {
            local_file_header_signature: binary_reader.read_u32::<LittleEndian>()?,
            version_needed_to_extract: binary_reader.read_u16::<LittleEndian>()?,
            general_purpose_bit_flag: binary_reader.read_u16::<LittleEndian>()?,
            compression_method: binary_reader.read_u16::<LittleEndian>()?,
            last_mod_file_time: binary_reader.read_u16::<LittleEndian>()?,
            last_mod_file_date: binary_reader.read_u16::<LittleEndian>()?,
            crc32: binary_reader.read_u32::<LittleEndian>()?,
            compressed_size: binary_reader.read_u32::<LittleEndian>()? as u64,
            uncompressed_size: binary_reader.read_u32::<LittleEndian>()? as u64,
            file_name_length: binary_reader.read_u16::<LittleEndian>()?,
            extra_field_length: binary_reader.read_u16::<LittleEndian>()?,
        };

        Ok(zip_local_file_header)
    }
}

/// parses the zip stream and returns the size of the header, followed by the decompressed contents
fn parse_zip_stream(contents: &[u8], loglevel: u32) -> Result<(usize, DecompressResult)> {
    let mut binary_reader = Cursor::new(&contents);

    // read the signature
    let zip_local_file_header = ZipLocalFileHeader::create_and_load(&mut binary_reader)?;
    let signature = zip_local_file_header.local_file_header_signature;
    if signature != ZIP_LOCAL_FILE_HEADER_SIGNATURE {
        return err_exit_code(ExitCode::InvalidDeflate, "No local header");
    }

    // read extended information
    let mut file_name_buf = vec![0; zip_local_file_header.file_name_length as usize];
    binary_reader.read_exact(&mut file_name_buf)?;
    //let _path = String::from_utf8(file_name_buf).map_err( PreflateError)?;

    // Skip Extra field
    binary_reader.seek(SeekFrom::Current(
        zip_local_file_header.extra_field_length as i64,
    ))?;

    // Handle the compressed DATA. Currently only Deflate (8) and uncompressed (0) are supported.
    if zip_local_file_header.compression_method == 8 {
        let deflate_start_position = binary_reader.stream_position()? as usize;

        // the extra field length may point past the end of the data
        if let Some(deflate_data) = contents.get(deflate_start_position..) {
            if let Ok(res) = decompress_deflate_stream(deflate_data, true, loglevel) {
                return Ok((deflate_start_position, res));
            }
        }
    }

    err_exit_code(ExitCode::InvalidDeflate, "No deflate stream found")
}
