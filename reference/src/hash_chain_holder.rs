/*---------------------------------------------------------------------------------------------
 *  Copyright (c) Microsoft Corporation. All rights reserved.
 *  Licensed under the Apache License, Version 2.0. See LICENSE.txt in the project root for license information.
 *  This software incorporates material from third parties. See NOTICE.txt for details.
 *--------------------------------------------------------------------------------------------*/

use crate::bit_helper::DebugHash;
use crate::hash_algorithm::{
    Crc32cHash, HashAlgorithm, HashImplementation, LibdeflateHash4, LibdeflateHash4Fast, MiniZHash,
    RandomVectorHash, ZlibNGHash, ZlibRotatingHash,
};
use crate::hash_chain::{HashChain, MAX_UPDATE_HASH_BATCH};
use crate::preflate_constants::{MAX_MATCH, MIN_LOOKAHEAD, MIN_MATCH};
use crate::preflate_error::{err_exit_code, ExitCode, Result};
use crate::preflate_input::PreflateInput;
use crate::preflate_parameter_estimator::PreflateStrategy;
use crate::preflate_token::PreflateTokenReference;
use crate::token_predictor::TokenPredictorParameters;

use std::cmp;

#[derive(Debug, Copy, Clone)]
pub enum MatchResult {
    Success(PreflateTokenReference),
    DistanceLargerThanHop0(u32, u32),
    NoInput,
    NoMoreMatchesFound,
    MaxChainExceeded(u32),
}

/// Factory function to create a new HashChainHolder based on the parameters and returns
/// a boxed trait object. The reason for this is that this lets the compiler optimize the
pub fn new_hash_chain_holder(params: &TokenPredictorParameters) -> Box<dyn HashChainHolder> {
    match params.hash_algorithm {
        HashAlgorithm::None => Box::<()>::default(),
        HashAlgorithm::Zlib {
            hash_mask,
            hash_shift,
        } => Box::new(HashChainHolderImpl::new(
            params,
            ZlibRotatingHash {
                hash_mask,
                hash_shift,
            },
        )),
        HashAlgorithm::MiniZFast => Box::new(HashChainHolderImpl::new(params, MiniZHash {})),
        HashAlgorithm::Libdeflate4 => {
            Box::new(HashChainHolderImpl::new(params, LibdeflateHash4 {}))
        }
        HashAlgorithm::Libdeflate4Fast => {
            Box::new(HashChainHolderImpl::new(params, LibdeflateHash4Fast {}))
        }

        HashAlgorithm::ZlibNG => Box::new(HashChainHolderImpl::new(params, ZlibNGHash {})),
        HashAlgorithm::RandomVector => {
            Box::new(HashChainHolderImpl::new(params, RandomVectorHash {}))
        }
        HashAlgorithm::Crc32cHash => Box::new(HashChainHolderImpl::new(params, Crc32cHash {})),
    }
}

/// trait that is not dependent on the HashImplementation so it can
/// be used in a concrete boxed type by the TokenPredictor
pub trait HashChainHolder {
    /// updates the hash dictionary for a given length of matches.
    ///
    /// If this is a literal, then the update policy is to add all the bytes to the dictionary.
    fn update_hash(&mut self, length: u32, input: &PreflateInput);

    /// searches the hash chain for a given match, returns the longest result found if any
    ///
    /// prev_len is the length of the previous match. We won't match anything shorter than that.
    /// max_depth is the maximum number of hops we will take in the hash chain
    fn match_token_0(&self, prev_len: u32, max_depth: u32, input: &PreflateInput) -> MatchResult;

    /// searches the hash chain for a given match, returns the longest result found if any.
    ///
    /// This is the lazy matching, so it starts at offset 1
    ///
    /// prev_len is the length of the previous match. We won't match anything shorter than that.
    /// max_depth is the maximum number of hops we will take in the hash chain
    fn match_token_1(&self, prev_len: u32, max_depth: u32, input: &PreflateInput) -> MatchResult;

    /// Tries to find the match by continuing on the hash chain, returns how many hops we went
    /// or none if it wasn't found
    fn calculate_hops(
        &self,
        target_reference: &PreflateTokenReference,
        input: &PreflateInput,
    ) -> Result<u32>;

    /// Does the inverse of calculate_hops, where we start from the predicted token and
    /// get the new distance based on the number of hops
    fn hop_match(&self, len: u32, hops: u32, input: &PreflateInput) -> Result<u32>;

    /// debugging function to verify that the hash chain is correct
    fn verify_hash(&self, _dist: Option<PreflateTokenReference>);

    fn checksum(&self, checksum: &mut DebugHash);
}

/// empty implementation of HashChainHolder if there is no dictionary
/// being used (for example the file is stored or huffman only encoded)
impl HashChainHolder for () {
    fn update_hash(&mut self, _length: u32, _input: &PreflateInput) {}

    fn match_token_0(
        &self,
        _prev_len: u32,
        _max_depth: u32,
        _input: &PreflateInput,
    ) -> MatchResult {
        MatchResult::NoMoreMatchesFound
    }

    fn match_token_1(
        &self,
        _prev_len: u32,
        _max_depth: u32,
        _input: &PreflateInput,
    ) -> MatchResult {
        MatchResult::NoMoreMatchesFound
    }

    fn calculate_hops(
        &self,
        _target_reference: &PreflateTokenReference,
        _input: &PreflateInput,
    ) -> Result<u32> {
        unimplemented!()
    }

    fn hop_match(&self, _len: u32, _hops: u32, _input: &PreflateInput) -> Result<u32> {
        unimplemented!()
    }

    fn verify_hash(&self, _dist: Option<PreflateTokenReference>) {}

    fn checksum(&self, _checksum: &mut DebugHash) {}
}

/// implemenation of HashChainHolder depends type of hash implemenatation
struct HashChainHolderImpl<H: HashImplementation> {
    hash: H::HashChainType,
    params: TokenPredictorParameters,
    window_bytes: u32,
}

impl<H: HashImplementation> HashChainHolder for HashChainHolderImpl<H> {
    fn update_hash(&mut self, length: u32, input: &PreflateInput) {
        debug_assert!(length <= MAX_UPDATE_HASH_BATCH);

        self.params.add_policy.update_hash(
            input.cur_chars(0),
            input.pos(),
            length,
            |input, pos, length| {
                self.hash.update_hash(input, pos, length);
            },
        );
    }
    fn match_token_0(&self, prev_len: u32, max_depth: u32, input: &PreflateInput) -> MatchResult {
        self.match_token_offset::<0>(prev_len, max_depth, input)
    }

    fn match_token_1(&self, prev_len: u32, max_depth: u32, input: &PreflateInput) -> MatchResult {
        self.match_token_offset::<1>(prev_len, max_depth, input)
    }

    /// Tries to find the match by continuing on the hash chain, returns how many hops we went
    /// or none if it wasn't found
    fn calculate_hops(
        &self,
        target_reference: &PreflateTokenReference,
        input: &PreflateInput,
    ) -> Result<u32> {
        let max_len = std::cmp::min(input.remaining(), MAX_MATCH);

        if max_len < target_reference.len() {
            return err_exit_code(ExitCode::PredictBlock, "max_len < target_reference.len()");
        }

        let max_chain_org = 0xffff; // max hash chain length
        let mut max_chain = max_chain_org; // max hash chain length
        let best_len = target_reference.len();
        let mut hops = 0;

        let cur_max_dist = std::cmp::min(input.pos(), self.window_bytes);

        for dist in self.hash.iterate(input, 0) {
            if dist > cur_max_dist {
                break;
            }

            let match_pos = input.cur_chars(-(dist as i32));
            let match_length =
                prefix_compare(match_pos, input.cur_chars(0), best_len - 1, best_len);

            if match_length >= best_len {
                hops += 1;
            }

            if dist >= target_reference.dist() {
                if dist == target_reference.dist() {
                    return Ok(hops);
                } else {
                    break;
                }
            }

            if max_chain <= 1 {
                break;
            }

            max_chain -= 1;
        }

        err_exit_code(ExitCode::MatchNotFound, "no match found")
    }

    /// Does the inverse of calculate_hops, where we start from the predicted token and
    /// get the new distance based on the number of hops
    fn hop_match(&self, len: u32, hops: u32, input: &PreflateInput) -> Result<u32> {
        let max_len = std::cmp::min(input.remaining(), MAX_MATCH);
        if max_len < len {
            return err_exit_code(ExitCode::RecompressFailed, "not enough data left to match");
        }

        let cur_max_dist = std::cmp::min(input.pos(), self.window_bytes);
        let mut current_hop = 0;

        for dist in self.hash.iterate(input, 0) {
            if dist > cur_max_dist {
                break;
            }

            let match_length = prefix_compare(
                input.cur_chars(-(dist as i32)),
                input.cur_chars(0),
                len - 1,
                len,
            );

            if match_length >= len {
                current_hop += 1;
                if current_hop == hops {
                    return Ok(dist);
                }
            }
        }

        err_exit_code(ExitCode::MatchNotFound, "no match found")
    }

    /// debugging function to verify that the hash chain is correct
    #[allow(dead_code)]
    fn verify_hash(&self, _dist: Option<PreflateTokenReference>) {
        //self.hash.verify_hash(dist, &self.input);
    }

    #[allow(dead_code)]
    fn checksum(&self, checksum: &mut DebugHash) {
        self.hash.checksum(checksum);
    }
}

impl<H: HashImplementation> HashChainHolderImpl<H> {
    pub fn new(params: &TokenPredictorParameters, hash: H) -> Self {
        Self {
            hash: hash.new_hash_chain(),
            window_bytes: 1 << params.window_bits,
            params: *params,
        }
    }

    fn match_token_offset<const OFFSET: u32>(
        &self,
        prev_len: u32,
        max_depth: u32,
        input: &PreflateInput,
    ) -> MatchResult {
        let start_pos = input.pos() + OFFSET;
        let max_len = std::cmp::min(input.size() - start_pos, MAX_MATCH);
        if max_len
            < std::cmp::max(
                prev_len + 1,
                std::cmp::max(H::num_hash_bytes() as u32, MIN_MATCH),
            )
        {
            return MatchResult::NoInput;
        }

        let max_dist_to_start = start_pos
            - if self.params.matches_to_start_detected {
                0
            } else {
                1
            };

        let cur_max_dist_hop0;
        let cur_max_dist_hop1_plus;
        if self.params.very_far_matches_detected {
            cur_max_dist_hop0 = cmp::min(max_dist_to_start, self.window_bytes);
            cur_max_dist_hop1_plus = cur_max_dist_hop0;
        } else {
            match self.params.strategy {
                PreflateStrategy::HuffOnly | PreflateStrategy::Store => {
                    return MatchResult::NoMoreMatchesFound;
                }
                PreflateStrategy::RleOnly => {
                    cur_max_dist_hop0 = 1;
                    cur_max_dist_hop1_plus = 1;
                }
                _ => {
                    let max_dist: u32 = self.window_bytes - MIN_LOOKAHEAD + 1;
                    cur_max_dist_hop0 = cmp::min(max_dist_to_start, max_dist);
                    cur_max_dist_hop1_plus = cmp::min(max_dist_to_start, max_dist - 1);
                }
            }
        }

        let nice_length = std::cmp::min(self.params.nice_length, max_len);
        let max_dist_3_matches = u32::from(self.params.max_dist_3_matches);
        let mut max_chain = max_depth;

        let input_chars = input.cur_chars(OFFSET as i32);
        let mut best_len = prev_len;
        let mut best_match: Option<PreflateTokenReference> = None;
        let mut first = true;

        for dist in self.hash.iterate(input, OFFSET) {
            // first entry gets a special treatment to make sure it doesn't exceed
            // the limits we calculated for the first hop
            if first {
                first = false;
                if dist > cur_max_dist_hop0 {
                    return MatchResult::DistanceLargerThanHop0(dist, cur_max_dist_hop0);
                }
            } else if dist > cur_max_dist_hop1_plus {
                break;
            }

            let match_start = input.cur_chars(OFFSET as i32 - dist as i32);

            let match_length = prefix_compare(match_start, input_chars, best_len, max_len);
            if match_length > best_len {
                let r = PreflateTokenReference::new(match_length, dist, false);

                if match_length >= nice_length && (match_length > 3 || dist <= max_dist_3_matches) {
                    return MatchResult::Success(r);
                }

                best_len = match_length;
                best_match = Some(r);

                // a match of the maximum possible length cannot be beaten, and
                // prefix_compare requires best_len < max_len
                if best_len >= max_len {
                    break;
                }
            }

            // a budget of zero (a chain limit below 4 quartered by the lazy "good match" rule) has always
            // meant "no limit" here because the counter wrapped; keep that, without the overflow
            max_chain = max_chain.wrapping_sub(1);

            if max_chain == 0 {
                if let Some(r) = best_match {
                    return MatchResult::Success(r);
                } else {
                    return MatchResult::MaxChainExceeded(max_depth);
                }
            }
        }

        if let Some(r) = best_match {
            MatchResult::Success(r)
        } else {
            MatchResult::NoMoreMatchesFound
        }
    }
}

#[inline]
fn prefix_compare(s1: &[u8], s2: &[u8], best_len: u32, max_len: u32) -> u32 {
    assert!(
        max_len >= 3
            && s1.len() >= max_len as usize
            && s2.len() >= max_len as usize
            && best_len < max_len
    );

    if s1[best_len as usize] != s2[best_len as usize] {
        return 0;
    }
    if s1[0] != s2[0] || s1[1] != s2[1] || s1[2] != s2[2] {
        return 0;
    }

    let mut match_len = 3; // Initialize with the length of the fixed prefix
    for i in 3..max_len {
        if s1[i as usize] != s2[i as usize] {
            break;
        }
        match_len = i + 1;
    }

    match_len
}
