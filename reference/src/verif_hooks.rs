//! Verification hooks. Compiled only with the cargo feature `verif`; the crate
//! without that feature is unchanged. Nothing in here alters library behaviour:
//! the functions expose internal seams (parser + writer without predictor,
//! estimator output, correction coding under caller-chosen parameters, the CABAC
//! codec) to an external harness, and `sched_point` is a no-op unless a
//! scheduler callback has been installed.

use std::io::Cursor;
use std::sync::atomic::{AtomicUsize, Ordering};

use cabac::vp8::{VP8Reader, VP8Writer};

use crate::{
    add_policy_estimator::DictionaryAddPolicy,
    cabac_codec::{PredictionDecoderCabac, PredictionEncoderCabac},
    deflate_writer::DeflateWriter,
    hash_algorithm::HashAlgorithm,
    preflate_error::{ExitCode, PreflateError},
    preflate_input::PreflateInput,
    preflate_parameter_estimator::{
        estimate_preflate_parameters, PreflateHuffStrategy, PreflateParameters, PreflateStrategy,
    },
    preflate_parse_config::MatchingType,
    process::{decode_mispredictions, encode_mispredictions, parse_deflate},
    statistical_codec::{
        CodecCorrection, CodecMisprediction, PredictionDecoder, PredictionEncoder,
    },
    token_predictor::TokenPredictorParameters,
};

/// (container wrapper version, correction-data file version)
pub fn format_versions() -> (u8, u16) {
    (
        crate::preflate_container::verif_wrapper_version(),
        crate::preflate_parameter_estimator::verif_file_version(),
    )
}

/// Runs the DEFLATE parser and the block writer with no predictor in between.
/// Returns (rewritten bytes, bytes consumed, plaintext).
pub fn parse_and_rewrite(data: &[u8]) -> Result<(Vec<u8>, usize, Vec<u8>), PreflateError> {
    let contents = parse_deflate(data, 0)?;
    let mut w = DeflateWriter::new();
    let n = contents.blocks.len();
    for (i, b) in contents.blocks.iter().enumerate() {
        w.encode_block(b, i + 1 == n)?;
    }
    w.flush_with_padding(contents.eof_padding);
    Ok((
        w.detach_output(),
        contents.compressed_size,
        contents.plain_text,
    ))
}

/// number of fields in the flat parameter vector
pub const PARAM_FIELDS: usize = 18;

/// Field order of the flat vector:
///  0 strategy (0 Default,1 RleOnly,2 HuffOnly,3 Store)   1 huff strategy (0 Dynamic,1 Mixed,2 Static)
///  2 zlib_compatible   3 window_bits   4 hash algorithm (0 None,1 Zlib,2 MiniZFast,3 Libdeflate4,
///  4 Libdeflate4Fast,5 ZlibNG,6 RandomVector,7 Crc32c)   5 hash_shift   6 hash_mask
///  7 max_token_count   8 max_dist_3_matches   9 very_far_matches_detected
/// 10 matches_to_start_detected   11 good_length   12 max_lazy (0 = greedy)   13 nice_length
/// 14 max_chain   15 min_len   16 add policy (0 AddAll,1 AddFirst,2 AddFirstAndLast,3 Except4k,4 With32K)
/// 17 add policy limit
pub fn flatten_params(p: &PreflateParameters) -> Vec<u32> {
    let t = &p.predictor;
    let (ha, hs, hm) = match t.hash_algorithm {
        HashAlgorithm::None => (0, 0, 0),
        HashAlgorithm::Zlib {
            hash_mask,
            hash_shift,
        } => (1, hash_shift, u32::from(hash_mask)),
        HashAlgorithm::MiniZFast => (2, 0, 0),
        HashAlgorithm::Libdeflate4 => (3, 0, 0),
        HashAlgorithm::Libdeflate4Fast => (4, 0, 0),
        HashAlgorithm::ZlibNG => (5, 0, 0),
        HashAlgorithm::RandomVector => (6, 0, 0),
        HashAlgorithm::Crc32cHash => (7, 0, 0),
    };
    let (gl, ml) = match t.matching_type {
        MatchingType::Greedy => (0, 0),
        MatchingType::Lazy {
            good_length,
            max_lazy,
        } => (u32::from(good_length), u32::from(max_lazy)),
    };
    let (ap, al) = match t.add_policy {
        DictionaryAddPolicy::AddAll => (0, 0),
        DictionaryAddPolicy::AddFirst(l) => (1, u32::from(l)),
        DictionaryAddPolicy::AddFirstAndLast(l) => (2, u32::from(l)),
        DictionaryAddPolicy::AddFirstExcept4kBoundary => (3, 0),
        DictionaryAddPolicy::AddFirstWith32KBoundary => (4, 0),
    };
    vec![
        match t.strategy {
            PreflateStrategy::Default => 0,
            PreflateStrategy::RleOnly => 1,
            PreflateStrategy::HuffOnly => 2,
            PreflateStrategy::Store => 3,
        },
        match p.huff_strategy {
            PreflateHuffStrategy::Dynamic => 0,
            PreflateHuffStrategy::Mixed => 1,
            PreflateHuffStrategy::Static => 2,
        },
        u32::from(t.zlib_compatible),
        t.window_bits,
        ha,
        hs,
        hm,
        u32::from(t.max_token_count),
        u32::from(t.max_dist_3_matches),
        u32::from(t.very_far_matches_detected),
        u32::from(t.matches_to_start_detected),
        gl,
        ml,
        t.nice_length,
        t.max_chain,
        t.min_len,
        ap,
        al,
    ]
}

fn bad(msg: &str) -> PreflateError {
    PreflateError::new(ExitCode::InvalidParameterHeader, msg)
}

fn to_u16(v: u32, what: &str) -> Result<u16, PreflateError> {
    u16::try_from(v).map_err(|_| bad(what))
}

/// inverse of `flatten_params`; Err on a vector that names no parameter value
pub fn unflatten_params(v: &[u32]) -> Result<PreflateParameters, PreflateError> {
    if v.len() != PARAM_FIELDS {
        return Err(bad("wrong number of fields"));
    }
    let strategy = match v[0] {
        0 => PreflateStrategy::Default,
        1 => PreflateStrategy::RleOnly,
        2 => PreflateStrategy::HuffOnly,
        3 => PreflateStrategy::Store,
        _ => return Err(bad("strategy")),
    };
    let huff_strategy = match v[1] {
        0 => PreflateHuffStrategy::Dynamic,
        1 => PreflateHuffStrategy::Mixed,
        2 => PreflateHuffStrategy::Static,
        _ => return Err(bad("huff strategy")),
    };
    let hash_algorithm = match v[4] {
        0 => HashAlgorithm::None,
        1 => HashAlgorithm::Zlib {
            hash_shift: v[5],
            hash_mask: to_u16(v[6], "hash mask")?,
        },
        2 => HashAlgorithm::MiniZFast,
        3 => HashAlgorithm::Libdeflate4,
        4 => HashAlgorithm::Libdeflate4Fast,
        5 => HashAlgorithm::ZlibNG,
        6 => HashAlgorithm::RandomVector,
        7 => HashAlgorithm::Crc32cHash,
        _ => return Err(bad("hash algorithm")),
    };
    let matching_type = if v[12] == 0 {
        MatchingType::Greedy
    } else {
        MatchingType::Lazy {
            good_length: to_u16(v[11], "good length")?,
            max_lazy: to_u16(v[12], "max lazy")?,
        }
    };
    let add_policy = match v[16] {
        0 => DictionaryAddPolicy::AddAll,
        1 => DictionaryAddPolicy::AddFirst(to_u16(v[17], "limit")?),
        2 => DictionaryAddPolicy::AddFirstAndLast(to_u16(v[17], "limit")?),
        3 => DictionaryAddPolicy::AddFirstExcept4kBoundary,
        4 => DictionaryAddPolicy::AddFirstWith32KBoundary,
        _ => return Err(bad("add policy")),
    };
    // fields that `write` serialises through u16::try_from(..).unwrap()
    to_u16(v[3], "window bits")?;
    to_u16(v[13], "nice length")?;
    to_u16(v[14], "max chain")?;
    to_u16(v[15], "min len")?;
    if let HashAlgorithm::Zlib { hash_shift, .. } = hash_algorithm {
        to_u16(hash_shift, "hash shift")?;
    }
    Ok(PreflateParameters {
        huff_strategy,
        predictor: TokenPredictorParameters {
            matches_to_start_detected: v[10] != 0,
            very_far_matches_detected: v[9] != 0,
            window_bits: v[3],
            strategy,
            nice_length: v[13],
            add_policy,
            max_token_count: to_u16(v[7], "max token count")?,
            zlib_compatible: v[2] != 0,
            max_dist_3_matches: to_u16(v[8], "max dist 3")?,
            matching_type,
            max_chain: v[14],
            min_len: v[15],
            hash_algorithm,
        },
    })
}

/// the parameter vector the estimator derives for a stream
pub fn estimate(data: &[u8]) -> Result<Vec<u32>, PreflateError> {
    let contents = parse_deflate(data, 0)?;
    let params = estimate_preflate_parameters(&contents.plain_text, &contents.blocks)?;
    Ok(flatten_params(&params))
}

/// Codes the corrections for `data` under the given parameter vector, reads them
/// back and reconstructs. Returns (reconstructed bytes, bytes consumed by the
/// parser, size of the correction data, parameter vector as re-read).
pub fn roundtrip_with_params(
    data: &[u8],
    vector: &[u32],
) -> Result<(Vec<u8>, usize, usize, Vec<u32>), PreflateError> {
    let params = unflatten_params(vector)?;
    let contents = parse_deflate(data, 0)?;

    let mut cabac_encoded = Vec::new();
    let mut enc = PredictionEncoderCabac::new(VP8Writer::new(&mut cabac_encoded).unwrap());
    params.write(&mut enc);
    encode_mispredictions(&contents, &params, &mut enc)?;
    enc.finish();
    drop(enc);

    let mut dec =
        PredictionDecoderCabac::new(VP8Reader::new(Cursor::new(&cabac_encoded[..])).unwrap());
    let reread = PreflateParameters::read(&mut dec)?;
    let (recompressed, _blocks) =
        decode_mispredictions(&reread, PreflateInput::new(&contents.plain_text), &mut dec)?;
    Ok((
        recompressed,
        contents.compressed_size,
        cabac_encoded.len(),
        flatten_params(&reread),
    ))
}

/// Codes the corrections for `data` under the given parameter vector (instead of the
/// estimator's). Returns (plaintext, correction data, bytes consumed by the parser); the
/// result has the same layout as what `decompress_deflate_stream` returns.
pub fn corrections_with_params(
    data: &[u8],
    vector: &[u32],
) -> Result<(Vec<u8>, Vec<u8>, usize), PreflateError> {
    let params = unflatten_params(vector)?;
    let contents = parse_deflate(data, 0)?;

    let mut cabac_encoded = Vec::new();
    let mut enc = PredictionEncoderCabac::new(VP8Writer::new(&mut cabac_encoded).unwrap());
    params.write(&mut enc);
    encode_mispredictions(&contents, &params, &mut enc)?;
    enc.finish();
    drop(enc);

    Ok((contents.plain_text, cabac_encoded, contents.compressed_size))
}

/// one operation of the correction codec
#[derive(Copy, Clone, Debug, Eq, PartialEq)]
pub enum CabacOp {
    /// fixed-width value: (bits 1..=16, value < 2^bits)
    Value(u8, u16),
    /// misprediction flag in context 0..7
    Mis(u8, bool),
    /// correction value in context 0..10
    Corr(u8, u32),
}

pub const MIS_CONTEXTS: usize = CodecMisprediction::MAX as usize;
pub const CORR_CONTEXTS: usize = CodecCorrection::MAX as usize;

fn mis_ctx(i: u8) -> CodecMisprediction {
    use CodecMisprediction::*;
    [
        EOFMisprediction,
        LiteralPredictionWrong,
        ReferencePredictionWrong,
        IrregularLen258,
        TreeCodeCountMisprediction,
        LiteralCountMisprediction,
        DistanceCountMisprediction,
    ][i as usize]
}

fn corr_ctx(i: u8) -> CodecCorrection {
    use CodecCorrection::*;
    [
        TokenCount,
        NonZeroPadding,
        BlockTypeCorrection,
        LenCorrection,
        DistOnlyCorrection,
        DistAfterLenCorrection,
        TreeCodeBitLengthCorrection,
        LDTypeCorrection,
        RepeatCountCorrection,
        LDBitLengthCorrection,
    ][i as usize]
}

/// Encodes the operations, finishes, and decodes with the same sequence of
/// operation kinds. Returns (encoded size, decoded operations).
pub fn cabac_roundtrip(ops: &[CabacOp]) -> (usize, Vec<CabacOp>) {
    let mut buf = Vec::new();
    let mut enc = PredictionEncoderCabac::new(VP8Writer::new(&mut buf).unwrap());
    for op in ops {
        match *op {
            CabacOp::Value(bits, v) => enc.encode_value(v, bits),
            CabacOp::Mis(c, b) => enc.encode_misprediction(mis_ctx(c), b),
            CabacOp::Corr(c, v) => enc.encode_correction(corr_ctx(c), v),
        }
    }
    enc.finish();
    drop(enc);

    let mut dec = PredictionDecoderCabac::new(VP8Reader::new(Cursor::new(&buf[..])).unwrap());
    let mut out = Vec::with_capacity(ops.len());
    for op in ops {
        out.push(match *op {
            CabacOp::Value(bits, _) => CabacOp::Value(bits, dec.decode_value(bits)),
            CabacOp::Mis(c, _) => CabacOp::Mis(c, dec.decode_misprediction(mis_ctx(c))),
            CabacOp::Corr(c, _) => CabacOp::Corr(c, dec.decode_correction(corr_ctx(c))),
        });
    }
    (buf.len(), out)
}

static SCHED_HOOK: AtomicUsize = AtomicUsize::new(0);

/// installs (or removes) the callback invoked at every scheduling point
pub fn set_sched_hook(f: Option<fn(u32)>) {
    SCHED_HOOK.store(f.map_or(0, |f| f as usize), Ordering::SeqCst);
}

/// scheduling point; does nothing unless a callback is installed
#[inline]
pub fn sched_point(id: u32) {
    let p = SCHED_HOOK.load(Ordering::Relaxed);
    if p != 0 {
        let f: fn(u32) = unsafe { std::mem::transmute::<usize, fn(u32)>(p) };
        f(id);
    }
}
