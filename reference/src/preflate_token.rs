/*---------------------------------------------------------------------------------------------
 *  Copyright (c) Microsoft Corporation. All rights reserved.
 *  Licensed under the Apache License, Version 2.0. See LICENSE.txt in the project root for license information.
 *  This software incorporates material from third parties. See NOTICE.txt for details.
 *--------------------------------------------------------------------------------------------*/

use crate::{
    huffman_encoding::HuffmanOriginalEncoding,
    preflate_constants::{
        quantize_distance, quantize_length, DIST_CODE_COUNT, LITLENDIST_CODE_COUNT,
        NONLEN_CODE_COUNT,
    },
};

#[derive(Copy, Clone, Debug, Eq, PartialEq)]
pub struct PreflateTokenReference {
    len: u8,
    dist: u16,
    irregular258: bool,
}

#[derive(Copy, Clone, Debug, Eq, PartialEq)]
pub enum PreflateToken {
    Literal(u8),
    Reference(PreflateTokenReference),
}

impl PreflateToken {
    pub fn new_reference(len: u32, dist: u32, irregular258: bool) -> PreflateToken {
        PreflateToken::Reference(PreflateTokenReference::new(len, dist, irregular258))
    }
}

impl PreflateTokenReference {
    pub fn new(len: u32, dist: u32, irregular258: bool) -> PreflateTokenReference {
        PreflateTokenReference {
            len: (len - 3) as u8,
            dist: dist as u16,
            irregular258,
        }
    }

    pub fn len(&self) -> u32 {
        (self.len as u32) + 3
    }

    pub fn dist(&self) -> u32 {
        self.dist as u32
    }

    pub fn get_irregular258(&self) -> bool {
        self.irregular258
    }

    pub fn set_irregular258(&mut self, irregular258: bool) {
        self.irregular258 = irregular258;
    }
}

#[derive(Copy, Clone, PartialEq, Eq, Debug)]
#[repr(u8)]
pub enum BlockType {
    DynamicHuff = 0,
    Stored = 1,
    StaticHuff = 2,
}

#[derive(Debug)]
pub struct PreflateTokenBlock {
    pub block_type: BlockType,
    // if this is an uncompressed block, then this is the length
    pub uncompressed: Vec<u8>,
    pub context_len: i32,
    pub padding_bits: u8,
    pub tokens: Vec<PreflateToken>,
    pub huffman_encoding: HuffmanOriginalEncoding,
    pub freq: TokenFrequency,
}

#[derive(Debug)]
pub struct TokenFrequency {
    pub literal_codes: [u16; LITLENDIST_CODE_COUNT],
    pub distance_codes: [u16; DIST_CODE_COUNT],
}

impl Default for TokenFrequency {
    fn default() -> Self {
        let mut t = TokenFrequency {
            literal_codes: [0; LITLENDIST_CODE_COUNT],
            distance_codes: [0; DIST_CODE_COUNT],
        };

        // include the end of block code
        t.literal_codes[256] = 1;

        t
    }
}

impl PreflateTokenBlock {
    pub fn new(block_type: BlockType) -> PreflateTokenBlock {
        PreflateTokenBlock {
            block_type,
            uncompressed: Vec::new(),
            context_len: 0,
            padding_bits: 0,
            tokens: Vec::new(),
            freq: TokenFrequency::default(),
            huffman_encoding: HuffmanOriginalEncoding::default(),
        }
    }

    pub fn add_literal(&mut self, lit: u8) {
        self.tokens.push(PreflateToken::Literal(lit));
        if self.block_type == BlockType::DynamicHuff {
            // the counters are 16 bit and wrap for blocks with more than 65535 occurrences of a
            // symbol (both the analysis and the reconstruction count the same way)
            let f = &mut self.freq.literal_codes[lit as usize];
            *f = f.wrapping_add(1);
        }
    }

    pub fn add_reference(&mut self, len: u32, dist: u32, irregular258: bool) {
        self.tokens
            .push(PreflateToken::new_reference(len, dist, irregular258));

        if self.block_type == BlockType::DynamicHuff {
            let f = &mut self.freq.literal_codes[NONLEN_CODE_COUNT + quantize_length(len)];
            *f = f.wrapping_add(1);
            let f = &mut self.freq.distance_codes[quantize_distance(dist)];
            *f = f.wrapping_add(1);
        }
    }
}
