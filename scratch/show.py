import json,sys
j=json.load(open(sys.argv[1]))
if not j.get('complete'): print("INCOMPLETE", j); sys.exit()
for k,e in j['engines'].items():
    print(k, 'states',e['states'], 'traces',e['traces'], 'nontriv',e['nontrivial'], e['outcomes'])
print('violations listed', len(j['violations']))
seen=set()
for v in j['violations']:
    key=(v['engine'],v['class'],v['panic_site'])
    if key in seen: continue
    seen.add(key)
    print(' ',v['engine'],v['index'],v['class'],v['panic_site'],v['detail'][:140],v['input_hex'][:80])
print('wall', j['wall_s'])
